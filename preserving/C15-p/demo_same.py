#!/usr/bin/env python3
"""Differential script for the consensus pseudo-read code path (property C15).

Builds a random reference and a few hundred random scCHIC molecules (gapped
coverage, huge gaps, reverse strand, single fragment, conflicting bases with
equal / unequal qualities, indels, splices, soft clips), runs them through
 - the sequtils helpers (phredscores_to_base_call, create_MD_tag, ...)
 - Molecule.deduplicate_majority / generate_partial_reads / get_consensus_read
 - Molecule.write_pysam(consensus=True) with and without source reads
 - the bamtagmultiome command line with --consensus (and --no_source_reads)
and prints a sha256 digest over everything observed as the last line.
"""
import hashlib
import itertools
import os
import random
import shutil
import sys
import tempfile
import warnings

import numpy as np
import pysam

warnings.filterwarnings('ignore')

import singlecellmultiomics.molecule.molecule as molecule_module
from singlecellmultiomics.molecule import CHICMolecule, Molecule
from singlecellmultiomics.fragment import CHICFragment, Fragment
from singlecellmultiomics.utils import sequtils
import singlecellmultiomics.universalBamTagger.bamtagmultiome as tm

rng = random.Random(1515)
digest = hashlib.sha256()
n_records = 0
stats = {}


def count(key, amount=1):
    stats[key] = stats.get(key, 0) + amount


def emit(*parts):
    global n_records
    n_records += 1
    line = '\t'.join(str(p) for p in parts)
    digest.update(line.encode())
    digest.update(b'\n')


def fmt(value):
    """Deterministic and exact representation (floats by repr, types included)"""
    if isinstance(value, dict):
        return '{' + ','.join(f'{fmt(k)}:{fmt(v)}' for k, v in value.items()) + '}'
    if isinstance(value, (list, tuple)):
        return type(value).__name__ + '(' + ','.join(fmt(v) for v in value) + ')'
    if isinstance(value, np.ndarray):
        return f'ndarray[{value.dtype}](' + ','.join(fmt(v) for v in value.tolist()) + ')'
    if isinstance(value, (float, np.floating)):
        return f'{type(value).__name__}:{float(value)!r}'
    return f'{type(value).__name__}:{value!r}'


def attempt(function, *args, **kwargs):
    try:
        return 'ok', function(*args, **kwargs)
    except Exception as e:  # record the type and message of the failure
        count('exceptions')
        return 'error', f'{type(e).__name__}:{e}'


# --------------------------------------------------------------------------
# 1. sequtils helpers
# --------------------------------------------------------------------------
PHREDS = [0, 1, 2, 5, 10, 13, 20, 20, 30, 30, 37, 40, 41, 60]


def phred_to_confidence(q):
    return 1 - np.power(10, -q / 10)


def random_observations():
    bases = rng.sample('ACGT', rng.randint(0, 4))
    if rng.random() < 0.1:
        bases.append('N')
    obs = {}
    for base in bases:
        obs[base] = [phred_to_confidence(rng.choice(PHREDS)) for _ in range(rng.randint(0 if rng.random() < 0.1 else 1, 5))]
    return obs


def handmade_observations():
    c = phred_to_confidence
    yield {}
    yield {'A': []}
    yield {'A': [], 'C': []}
    yield {'A': [c(30)]}
    yield {'A': [c(30)], 'C': [c(30)]}  # tie
    yield {'C': [c(30)], 'A': [c(30)]}  # tie, other order
    yield {'A': [c(30)], 'C': [c(20)]}
    yield {'A': [c(20)], 'C': [c(30)]}
    yield {'A': [c(30), c(30)], 'C': [c(30)]}
    yield {'A': [c(30), c(30)], 'C': [c(30), c(30)]}
    yield {'A': [c(30)], 'C': [c(30)], 'G': [c(30)]}
    yield {'A': [c(30)], 'C': [c(30)], 'G': [c(37)]}
    yield {'A': [c(37)], 'C': [c(30)], 'G': [c(30)]}
    yield {'A': [c(0)]}
    yield {'A': [c(0)], 'C': [c(0)]}
    yield {'A': [0.0, 1.0]}  # total likelihood zero
    yield {'A': [1.0]}
    yield {'A': [1.0], 'C': [1.0]}
    yield {'N': [c(30)]}
    yield {'N': [c(30)], 'A': [c(30)]}
    yield {'A': [0.5]}  # N as likely as A
    yield {'A': [0.5], 'T': [0.5]}
    yield {'A': [0.95, 0.99, 0.9], 'T': [0.1]}
    yield {'A': [c(40)] * 40, 'T': [c(40)] * 39}
    yield {'A': [c(2)] * 300}


all_observations = list(handmade_observations()) + [random_observations() for _ in range(400)]
for i, obs in enumerate(all_observations):
    for name, function in (('call', sequtils.phredscores_to_base_call),
                           ('likelihood', sequtils.base_probabilities_to_likelihood)):
        supplied = {base: list(values) for base, values in obs.items()}
        status, result = attempt(function, supplied)
        emit('sequtils', name, i, status, fmt(result), fmt(supplied))
        if name == 'call' and status == 'ok':
            count('calls_N' if result[0] == 'N' else 'calls_base')
        if name == 'likelihood' and status == 'ok':
            status, result = attempt(sequtils.likelihood_to_prob, result)
            emit('sequtils', 'prob', i, status, fmt(result))


def random_sequence(length, alphabet='ACGT'):
    return ''.join(rng.choice(alphabet) for _ in range(length))


md_cases = [('', ''), ('A', 'A'), ('A', 'C'), ('a', 'A'), ('a', 'a'), ('A', 'a'), ('ACGT', 'ACGT'), ('ACGT', 'TGCA'),
            ('ACGTN', 'ACGTN'), ('ACGTN', 'ACGTA'), ('ACGTA', 'ACGTN'), ('ACGT', 'AC'), ('AC', 'ACGT'),
            ('nnnn', 'NNNN'), ('AAAA', 'NNNN'), ('acgtacgt', 'ACGAACGT')]
for _ in range(300):
    length = rng.randint(0, 120)
    reference_seq = random_sequence(length, rng.choice(['ACGT', 'ACGTN', 'ACGTacgtNn']))
    query = list(reference_seq.upper() if rng.random() < 0.8 else reference_seq)
    for _ in range(rng.choice([0, 0, 1, 2, 5, 30])):
        if query:
            query[rng.randrange(len(query))] = rng.choice('ACGTN')
    query = ''.join(query)
    if rng.random() < 0.05:
        query = query[:rng.randint(0, len(query))]
    md_cases.append((reference_seq, query))
for reference_seq, query in md_cases:
    status, result = attempt(sequtils.create_MD_tag, reference_seq, query)
    emit('sequtils', 'md', reference_seq, query, status, fmt(result))

# --------------------------------------------------------------------------
# 2. Inputs: reference and random molecules
# --------------------------------------------------------------------------
workdir = tempfile.mkdtemp(prefix='demo_same_c15_')
CONTIGS = {'chr1': 560000, 'chr2': 200000}
reference_sequences = {}
reference_path = os.path.join(workdir, 'ref.fa')
with open(reference_path, 'w') as handle:
    for contig, length in CONTIGS.items():
        sequence = list(random_sequence(length))
        # some soft masked (lower case) and N stretches in the reference
        for _ in range(length // 1500):
            start = rng.randrange(length - 60)
            for k in range(start, start + rng.randint(5, 60)):
                sequence[k] = sequence[k].lower() if rng.random() < 0.7 else 'N'
        sequence = ''.join(sequence)
        reference_sequences[contig] = sequence
        handle.write(f'>{contig}\n')
        for k in range(0, length, 60):
            handle.write(sequence[k:k + 60] + '\n')
pysam.faidx(reference_path)
reference = pysam.FastaFile(reference_path)

header = pysam.AlignmentHeader.from_dict({
    'HD': {'VN': '1.6', 'SO': 'coordinate'},
    'SQ': [{'SN': contig, 'LN': length} for contig, length in CONTIGS.items()]})

CIGAR_CODES = {'M': 0, 'I': 1, 'D': 2, 'N': 3, 'S': 4}


def query_for(contig, start, cigar):
    """Reference derived query sequence for the supplied cigar [(op, amount)]"""
    bases = []
    position = start
    for operation, amount in cigar:
        if operation == 'M':
            bases.append(reference_sequences[contig][position:position + amount].upper().replace('N', 'A'))
            position += amount
        elif operation in 'DN':
            position += amount
        else:  # I, S
            bases.append(random_sequence(amount))
    return ''.join(bases), position


def random_cigar(length, allow_softclip_start, allow_softclip_end):
    style = rng.random()
    if length < 24 or style < 0.6:
        cigar = [('M', length)]
    else:
        a = rng.randint(8, length - 12)
        b = length - a
        if style < 0.7:
            cigar = [('M', a), ('D', rng.randint(1, 4)), ('M', b)]
        elif style < 0.8:
            ins = rng.randint(1, 3)
            cigar = [('M', a), ('I', ins), ('M', max(1, b - ins))]
        elif style < 0.9:
            cigar = [('M', a), ('N', rng.choice([1, 20, 299, 300, 301, 900])), ('M', b)]
        else:
            cigar = [('M', a), ('D', 1), ('M', max(1, b - 6)), ('N', rng.choice([50, 400])), ('M', 6)]
    if allow_softclip_end and rng.random() < 0.1:
        cigar = cigar + [('S', rng.randint(1, 5))]
    if allow_softclip_start and rng.random() < 0.1:
        cigar = [('S', rng.randint(1, 5))] + cigar
    return cigar


def reference_span(cigar):
    return sum(amount for operation, amount in cigar if operation in 'MDN')


def make_read(name, contig, start, cigar, is_reverse, is_read1, sample, umi, planted):
    sequence, end = query_for(contig, start, cigar)
    sequence = list(sequence)
    style = rng.random()
    if style < 0.3:
        qualities = [rng.choice([30, 37])] * len(sequence)  # flat qualities: ties are likely
    else:
        qualities = [rng.choice(PHREDS) for _ in sequence]
    # sequencing errors
    for _ in range(rng.choice([0, 0, 1, 2, 4])):
        k = rng.randrange(len(sequence))
        sequence[k] = rng.choice('ACGTN')
    read = pysam.AlignedSegment(header)
    read.query_name = name
    read.reference_name = contig
    read.reference_start = start
    read.query_sequence = ''.join(sequence)
    read.cigartuples = [(CIGAR_CODES[operation], amount) for operation, amount in cigar]
    read.is_reverse = is_reverse
    read.mapping_quality = rng.choice([0, 20, 42, 60])
    # planted conflicts: (reference position) -> (base, quality)
    for query_position, reference_position in read.get_aligned_pairs(matches_only=True):
        if reference_position in planted:
            options = planted[reference_position]
            base, quality = options[rng.randrange(len(options))]
            sequence[query_position] = base
            qualities[query_position] = quality
    read.query_sequence = ''.join(sequence)
    read.query_qualities = pysam.qualitystring_to_array(''.join(chr(33 + q) for q in qualities))
    read.is_paired = True
    read.is_proper_pair = True
    read.is_read1 = is_read1
    read.is_read2 = not is_read1
    read.set_tag('SM', sample)
    read.set_tag('RX', umi)
    read.set_tag('BC', 'ACGTACGT')
    read.set_tag('MX', 'scCHIC')
    read.set_tag('lh', 'TA')
    return read


def set_mates(r1, r2):
    for a, b in ((r1, r2), (r2, r1)):
        a.next_reference_id = b.reference_id
        a.next_reference_start = b.reference_start
        a.mate_is_reverse = b.is_reverse
    left = min(r1.reference_start, r2.reference_start)
    right = max(r1.reference_end, r2.reference_end)
    for read in (r1, r2):
        read.template_length = (right - left) * (1 if read.reference_start == left else -1)


GAPS = [-15, -1, 0, 1, 2, 10, 40, 120, 298, 299, 300, 301, 302, 450, 800]
SAMPLES = ['CELL_1', 'CELL_2', 'PLATE_9_cell_0', 'x']
molecule_specifications = []  # (name, list of (R1, R2 or None))
site_cursor = {contig: 1500 for contig in CONTIGS}


def make_molecule(index):
    contig = 'chr1' if rng.random() < 0.75 else 'chr2'
    site = site_cursor[contig]
    site_cursor[contig] += 2600  # keep molecules well separated
    if site + 1300 > CONTIGS[contig]:
        return None
    is_reverse = rng.random() < 0.45
    sample = rng.choice(SAMPLES)
    umi = random_sequence(rng.choice([3, 6, 8]))
    n_fragments = rng.choice([1, 1, 2, 2, 3, 4, 6])
    single_end = rng.random() < 0.2
    # planted conflicting positions near the site; equal and unequal qualities
    planted = {}
    for _ in range(rng.choice([0, 1, 2, 4])):
        offset = rng.randint(2, 28)
        position = site + offset if not is_reverse else site - offset
        bases = rng.sample('ACGT', rng.choice([2, 2, 3]))
        if rng.random() < 0.5:
            quality = rng.choice([20, 30, 37])
            planted[position] = [(base, quality) for base in bases]
        else:
            planted[position] = [(base, rng.choice(PHREDS)) for base in bases]
    fragments = []
    for f in range(n_fragments):
        name = f'mol{index}_frag{f}'
        l1, l2 = rng.randint(20, 70), rng.randint(20, 70)
        gap = rng.choice(GAPS)
        if not is_reverse:
            cigar1 = random_cigar(l1, False, True)
            r1 = make_read(name, contig, site, cigar1, False, True, sample, umi, planted)
            r2 = None
            if not single_end:
                start2 = max(r1.reference_end + gap, site + 1)
                r2 = make_read(name, contig, start2, random_cigar(l2, True, True), True, False, sample, umi, planted)
        else:
            cigar1 = random_cigar(l1, True, False)
            r1 = make_read(name, contig, site - reference_span(cigar1), cigar1, True, True, sample, umi, planted)
            r2 = None
            if not single_end:
                cigar2 = random_cigar(l2, True, True)
                start2 = min(r1.reference_start - gap - reference_span(cigar2), site - 1 - reference_span(cigar2))
                r2 = make_read(name, contig, max(0, start2), cigar2, False, False, sample, umi, planted)
        if r2 is None:
            r1.is_paired = False
            r1.is_proper_pair = False
        else:
            set_mates(r1, r2)
        fragments.append((r1, r2))
    return f'mol{index}', fragments


for index in range(260):
    specification = make_molecule(index)
    if specification is not None:
        molecule_specifications.append(specification)
count('molecules', len(molecule_specifications))

# Deterministic replacement for the random consensus read names
uuid_counter = itertools.count()
molecule_module.uuid4 = lambda: f'uuid{next(uuid_counter)}'


def read_to_record(read):
    if read is None:
        return 'None'
    def length(value):
        return None if value is None else len(value)
    return read.to_string() + '|blocks=' + repr(read.get_blocks()) + '|qlen=' + repr(
        (length(read.query_sequence), length(read.query_qualities), read.infer_query_length()))


def copy_read(read):
    return None if read is None else pysam.AlignedSegment.fromstring(read.to_string(), header)


def build_molecule(fragments, molecule_class=CHICMolecule, fragment_class=CHICFragment, **kwargs):
    return molecule_class([fragment_class([copy_read(r1), copy_read(r2)]) for r1, r2 in fragments], **kwargs)


# --------------------------------------------------------------------------
# 3. API
# --------------------------------------------------------------------------
api_bam_path = os.path.join(workdir, 'api_out.bam')
MAX_N_SPANS = [None, 0, 1, 50, 299, 300, 301, 100000]
with pysam.AlignmentFile(api_bam_path, 'wb', header=header) as api_bam:
    for name, fragments in molecule_specifications:
        molecule = build_molecule(fragments, reference=reference)
        emit('api', name, 'molecule', molecule.chromosome, molecule.spanStart, molecule.spanEnd, molecule.strand,
             len(molecule), molecule.sample, molecule.umi)
        count('fragments_in_molecules', len(molecule))

        # the intermediate products
        status, calls = attempt(lambda: {location: sequtils.phredscores_to_base_call(probs)
                                         for location, probs in molecule.get_base_confidence_dict().items()})
        emit('api', name, 'calls', status, fmt(calls))
        if status == 'ok':
            count('positions_called', len(calls))
            count('positions_N', sum(1 for base, _ in calls.values() if base == 'N'))
            for max_N_span in (None, 0, 300):
                status, parts = attempt(lambda: list(molecule.generate_partial_reads(calls, max_N_span=max_N_span)))
                emit('api', name, 'partial', max_N_span, status, fmt(parts))
            start = molecule.spanStart - 3
            status, stretch = attempt(molecule.extract_stretch_from_dict, calls, start, start + rng.randint(0, 90))
            emit('api', name, 'stretch', status, fmt(stretch))
            status, stretch = attempt(molecule.extract_stretch_from_dict, {}, 10, 14)
            emit('api', name, 'stretch_empty', status, fmt(stretch))
        emit('api', name, 'cigar', fmt(attempt(molecule.get_CIGAR)))

        # the consensus reads
        for max_N_span in MAX_N_SPANS:
            molecule = build_molecule(fragments, reference=reference)
            status, reads = attempt(molecule.deduplicate_majority, api_bam, f'{name}_consensus_{max_N_span}',
                                    max_N_span=max_N_span)
            if status == 'ok':
                count('consensus_reads', len(reads))
                if len(reads) > 1:
                    count('split_molecules')
                emit('api', name, 'dedup', max_N_span, len(reads), *[read_to_record(read) for read in reads])
                for read in reads:
                    api_bam.write(read)
            else:
                emit('api', name, 'dedup', max_N_span, status, reads)

        # twice on the same molecule (history)
        molecule = build_molecule(fragments, reference=reference)
        for repeat in range(2):
            status, reads = attempt(molecule.deduplicate_majority, api_bam, f'{name}_again', max_N_span=rng.choice(MAX_N_SPANS))
            emit('api', name, 'repeat', repeat, status,
                 *([read_to_record(read) for read in reads] if status == 'ok' else [reads]))

        # get_consensus_read with defaults, with dictionaries and with strings
        molecule = build_molecule(fragments, reference=reference)
        status, read = attempt(molecule.get_consensus_read, api_bam, f'{name}_default')
        emit('api', name, 'consensus_read_default', status, read_to_record(read) if status == 'ok' else read)
        status, consensus = attempt(molecule.get_consensus)
        if status == 'ok':
            phred_dict = {location: rng.randint(0, 60) for location in consensus if rng.random() < 0.8}
            if rng.random() < 0.5 and len(consensus) > 0:
                consensus.pop(rng.choice(list(consensus)), None)
            for kwargs in (dict(consensus=consensus, phred_scores=phred_dict),
                           dict(consensus=consensus, phred_scores=phred_dict, mdstring='10', supplementary=True),
                           dict(consensus=consensus),
                           dict(consensus='ACGTN', phred_scores=[1, 2, 3, 4, 5], start=7),
                           dict(consensus='ACGTN', phred_scores=[1, 2, 3, 4, 5], cigarstring='2M3N3M', start=0),
                           dict(consensus='ACGTN', phred_scores=phred_dict),
                           dict(consensus='', phred_scores=None)):
                status, read = attempt(molecule.get_consensus_read, api_bam, f'{name}_cr', **kwargs)
                emit('api', name, 'consensus_read', status, read_to_record(read) if status == 'ok' else read)

        # write_pysam, the function used by the tagger
        for no_source_reads in (False, True):
            for consensus_name in (None, f'{name}_named'):
                molecule = build_molecule(fragments, reference=reference)
                callback_seen = []
                status, result = attempt(molecule.write_pysam, api_bam, consensus=True, no_source_reads=no_source_reads,
                                         consensus_name=consensus_name,
                                         consensus_read_callback=lambda reads, **kw: callback_seen.append(
                                             (kw, [read_to_record(read) for read in reads])),
                                         consensus_read_callback_kwargs={'k': 1} if no_source_reads else None)
                emit('api', name, 'write_pysam', no_source_reads, consensus_name, status, result, fmt(callback_seen),
                     *[read_to_record(read) for read in molecule.iter_reads()])

        # faults: no reference, reference without the contig, failing reference
        molecule = build_molecule(fragments, reference=None)
        emit('api', name, 'no_reference', *attempt(molecule.deduplicate_majority, api_bam, 'x'))

        class FailingReference:
            def __init__(self, fail_at):
                self.calls = 0
                self.fail_at = fail_at

            def fetch(self, contig, start, end):
                self.calls += 1
                emit('fetch', name, contig, start, end)
                if self.calls == self.fail_at:
                    raise OSError(5, 'Input/output error')
                return reference.fetch(contig, start, end)

        for fail_at in (1, 2, 0):
            failing = FailingReference(fail_at)
            molecule = build_molecule(fragments, reference=failing)
            status, reads = attempt(molecule.deduplicate_majority, api_bam, 'x', max_N_span=100)
            emit('api', name, 'failing_reference', fail_at, status, failing.calls,
                 *([read_to_record(read) for read in reads] if status == 'ok' else [reads]))
            if status != 'ok':  # retry on the same molecule after the fault is gone
                failing.fail_at = 0
                status, reads = attempt(molecule.deduplicate_majority, api_bam, 'x', max_N_span=100)
                emit('api', name, 'retry', status, failing.calls,
                     *([read_to_record(read) for read in reads] if status == 'ok' else [reads]))

        # base classes: no cut site available
        molecule = build_molecule(fragments, Molecule, Fragment, reference=reference)
        emit('api', name, 'base_class', *attempt(molecule.deduplicate_majority, api_bam, 'x'))

    # a molecule without any mapped read
    unmapped = pysam.AlignedSegment(header)
    unmapped.query_name = 'unmapped'
    unmapped.query_sequence = 'ACGTACGTAC'
    unmapped.query_qualities = pysam.qualitystring_to_array('IIIIIIIIII')
    unmapped.is_unmapped = True
    for tag, value in (('SM', 'CELL_1'), ('RX', 'AAA'), ('BC', 'ACGTACGT'), ('MX', 'scCHIC')):
        unmapped.set_tag(tag, value)
    for classes in ((Molecule, Fragment), (CHICMolecule, CHICFragment)):
        status, molecule = attempt(build_molecule, [(unmapped, None)], *classes, reference=reference)
        emit('api', 'unmapped', 'build', status)
        if status == 'ok':
            emit('api', 'unmapped', 'dedup', fmt(attempt(molecule.deduplicate_majority, api_bam, 'x')))
            emit('api', 'unmapped', 'write', fmt(attempt(molecule.write_pysam, api_bam, consensus=True)))

with pysam.AlignmentFile(api_bam_path, check_sq=False) as api_bam:
    for read in api_bam:
        emit('api_file', read_to_record(read))
        count('api_file_reads')

# --------------------------------------------------------------------------
# 4. Command line
# --------------------------------------------------------------------------
input_reads = [read for _, fragments in molecule_specifications for pair in fragments for read in pair if read is not None]
input_reads.sort(key=lambda read: (read.reference_id, read.reference_start))
input_path = os.path.join(workdir, 'input.bam')
with pysam.AlignmentFile(input_path, 'wb', header=header) as handle:
    for read in input_reads:
        handle.write(read)
pysam.index(input_path)

previous_directory = os.getcwd()
os.chdir(workdir)
for label, options in (('consensus', '--consensus --multiprocess -tagthreads 2'),
                       ('consensus_only', '--consensus --no_source_reads --multiprocess -tagthreads 2'),
                       ('plain', '')):
    output_path = os.path.join(workdir, f'cli_{label}.bam')
    command = f'{input_path} -method chic -ref {reference_path} -o {output_path} {options}'.split()
    stdout = sys.stdout
    try:
        with open(os.devnull, 'w') as sink:
            sys.stdout = sink
            status, result = attempt(tm.run_multiome_tagging_cmd, command)
    finally:
        sys.stdout = stdout
    emit('cli', label, status, result if status != 'ok' else '')
    if os.environ.get('DEMO_DEBUG'):
        print('cli', label, status, result, file=sys.stderr)
    if os.path.exists(output_path):
        records = []
        with pysam.AlignmentFile(output_path) as handle:
            for read in handle:
                is_consensus = read.query_name.startswith('molecule_')
                if is_consensus:
                    # random (uuid) name, assigned in a worker process
                    read.query_name = 'molecule_consensus'
                count(f'cli_{label}_{"consensus" if is_consensus else "source"}_reads')
                records.append(read_to_record(read))
        # reads starting at the same coordinate have no defined order in the merged file
        for record in sorted(records):
            emit('cli', label, record)
os.chdir(previous_directory)
shutil.rmtree(workdir, ignore_errors=True)

print('records', n_records)
for key in sorted(stats):
    print(key, stats[key])
print(digest.hexdigest())
