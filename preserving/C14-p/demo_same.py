#!/usr/bin/env python3
"""Differential script for the TAPS methylation calling code (property C14).

Builds random references and simulated TAPS molecules in a temporary directory,
runs the methylation calling and tag writing, and prints a sha256 digest over
all observable outputs as the last line.
"""
import hashlib
import os
import random
import shutil
import tempfile
import warnings

import numpy as np
import pysam

warnings.simplefilter('ignore')

from singlecellmultiomics.molecule import TAPS, TAPSMolecule, TAPSNlaIIIMolecule, TAPSCHICMolecule
from singlecellmultiomics.fragment import Fragment, NlaIIIFragment, CHICFragment

rng = random.Random(1404)
digest = hashlib.sha256()
n_records = 0


def emit(*parts):
    global n_records
    n_records += 1
    digest.update(('\x1f'.join(repr(p) for p in parts) + '\n').encode())


# ---------------------------------------------------------------- reference
def random_sequence(length, alphabet='ACGT', weights=(1, 1, 1, 1)):
    return ''.join(rng.choices(alphabet, weights=weights, k=length))


def build_reference(path):
    contigs = {}
    # CpG rich, starts and ends with C / G runs so that contexts are truncated at both edges
    contigs['chrEdge'] = 'CCGCG' + random_sequence(150, weights=(1, 3, 3, 1)) + 'CGGCG'
    contigs['chrRand'] = random_sequence(400)
    # non ACGT bases and lower case (soft masked) stretches
    seq = list(random_sequence(300, weights=(1, 2, 2, 1)))
    for i in rng.sample(range(300), 40):
        seq[i] = rng.choice('NRYKM')
    for i in range(100, 160):
        seq[i] = seq[i].lower()
    contigs['chrAmbig'] = ''.join(seq)
    contigs['chrTiny'] = 'CG'
    contigs['chrShort'] = 'GCCGGCATGCGC'
    contigs['chrAT'] = random_sequence(120, alphabet='AT', weights=(1, 1))
    with open(path, 'w') as h:
        for name, sequence in contigs.items():
            h.write(f'>{name}\n')
            for i in range(0, len(sequence), 60):
                h.write(sequence[i:i + 60] + '\n')
    pysam.faidx(path)
    return contigs


# ---------------------------------------------------------------- reads
def make_md(ref_aligned, query_aligned):
    """MD tag for an alignment given as two gapped strings (ref '-' = insertion, query '-' = deletion)"""
    md = []
    run = 0
    in_deletion = False
    for r, q in zip(ref_aligned, query_aligned):
        if r == '-':  # insertion, not part of MD
            continue
        if q == '-':
            if not in_deletion:
                md.append(str(run))
                run = 0
                md.append('^')
                in_deletion = True
            md.append(r.upper())
            continue
        if in_deletion:
            in_deletion = False
        if r.upper() == q.upper():
            run += 1
        else:
            md.append(str(run))
            md.append(r.upper())
            run = 0
    md.append(str(run))
    return ''.join(md)


def convert(refseq, start, end, converted_ref_base, methylation_rate, error_rate, variant_rate=0.0):
    """Simulate the sequenced bases of refseq[start:end] (forward orientation)"""
    out = []
    for i in range(start, end):
        base = refseq[i].upper()
        if base not in 'ACGT':
            base = rng.choice('ACGT')
        if base == converted_ref_base and rng.random() < methylation_rate:
            base = 'T' if converted_ref_base == 'C' else 'A'
        elif rng.random() < error_rate:
            base = rng.choice('ACGTN')
        elif rng.random() < variant_rate:
            base = rng.choice('ACGT')
        out.append(base)
    return ''.join(out)


def make_read(header, contig, refseq, start, end, is_read1, is_reverse, name, converted_ref_base,
              methylation_rate, error_rate, with_md=True, indel=None, softclip=0, qualities=None,
              extra_tags=(), lower_case_query=False):
    query = convert(refseq, start, end, converted_ref_base, methylation_rate, error_rate)
    ref_aligned = refseq[start:end]
    query_aligned = query
    cigar = []
    if indel is not None and end - start > 12:
        kind, offset, size = indel
        offset = min(max(offset, 3), end - start - size - 3)
        if kind == 'D':
            query_aligned = query[:offset] + '-' * size + query[offset + size:]
            cigar = [(0, offset), (2, size), (0, end - start - offset - size)]
        else:
            inserted = random_sequence(size)
            query_aligned = query[:offset] + inserted + query[offset:]
            ref_aligned = ref_aligned[:offset] + '-' * size + ref_aligned[offset:]
            cigar = [(0, offset), (1, size), (0, end - start - offset)]
    else:
        cigar = [(0, end - start)]
    sequence = query_aligned.replace('-', '')
    if softclip:
        sequence = random_sequence(softclip) + sequence
        cigar = [(4, softclip)] + cigar
    read = pysam.AlignedSegment(header)
    read.query_name = name
    read.reference_name = contig
    read.reference_start = start
    read.query_sequence = sequence
    read.cigartuples = cigar
    if qualities is None:
        read.query_qualities = pysam.qualitystring_to_array(
            ''.join(rng.choice('#,5:AFI') for _ in sequence))
    else:
        read.query_qualities = pysam.qualitystring_to_array(qualities * len(sequence))
    read.mapping_quality = 60
    read.is_paired = True
    read.is_proper_pair = True
    read.is_read1 = is_read1
    read.is_read2 = not is_read1
    read.is_reverse = is_reverse
    read.set_tag('SM', 'Cell_A')
    read.set_tag('lh', 'TG')
    for tag, value in extra_tags:
        read.set_tag(tag, value)
    if with_md:
        read.set_tag('MD', make_md(ref_aligned, query_aligned))
    return read


def pair_up(read_a, read_b):
    read_a.next_reference_id = read_b.reference_id
    read_a.next_reference_start = read_b.reference_start
    read_b.next_reference_id = read_a.reference_id
    read_b.next_reference_start = read_a.reference_start
    read_a.mate_is_reverse = read_b.is_reverse
    read_b.mate_is_reverse = read_a.is_reverse


def simulate_fragment(header, contig, refseq, frag_start, frag_end, strand, name, converted_ref_base,
                      methylation_rate, error_rate, layout, fragment_class, with_md=True, indels=False,
                      softclip=False):
    """layout: 'inward', 'overlap', 'dove', 'dove2', 'single', 'contained' """
    length = frag_end - frag_start
    rl = max(1, min(length, rng.randint(max(1, length // 3), max(1, length))))
    if layout == 'inward':
        rl = max(1, min(rl, length // 2))
    left = (frag_start, min(frag_end, frag_start + rl))
    right = (max(frag_start, frag_end - rl), frag_end)
    if layout == 'overlap':
        left = (frag_start, min(frag_end, frag_start + (2 * length) // 3 + 1))
        right = (max(frag_start, frag_end - (2 * length) // 3 - 1), frag_end)
    elif layout == 'dove':
        # forward read extends beyond the end of the reverse read
        right = (right[0], max(right[0] + 1, frag_end - rng.randint(1, max(1, length // 4))))
        left = (frag_start, frag_end)
    elif layout == 'dove2':
        # both reads extend beyond the start of their mate
        left = (frag_start + rng.randint(1, max(1, length // 4)), frag_end)
        right = (frag_start, max(frag_start + 1, frag_end - rng.randint(1, max(1, length // 4))))
        if left[0] >= left[1]:
            left = (frag_start, frag_end)
    elif layout == 'contained':
        right = (frag_start + length // 3, max(frag_start + length // 3 + 1, frag_end - length // 3))
    # strand False: R1 forward on the left, strand True: R1 reverse on the right
    r1_span, r2_span = (left, right) if not strand else (right, left)
    indel_1 = (rng.choice('DI'), rng.randint(3, 20), rng.randint(1, 3)) if indels and rng.random() < 0.5 else None
    indel_2 = (rng.choice('DI'), rng.randint(3, 20), rng.randint(1, 3)) if indels and rng.random() < 0.5 else None
    r1 = make_read(header, contig, refseq, r1_span[0], r1_span[1], True, strand, name, converted_ref_base,
                   methylation_rate, error_rate, with_md=with_md, indel=indel_1,
                   softclip=rng.randint(1, 4) if softclip and not strand else 0)
    if layout == 'single':
        return fragment_class([r1, None])
    r2 = make_read(header, contig, refseq, r2_span[0], r2_span[1], False, not strand, name,
                   converted_ref_base, methylation_rate, error_rate, with_md=with_md, indel=indel_2,
                   softclip=rng.randint(1, 4) if softclip and strand else 0)
    pair_up(r1, r2)
    return fragment_class([r1, r2])


# ---------------------------------------------------------------- reporting
def describe_call_dict(call_dict):
    if call_dict is None:
        return None
    return [(key, sorted((k, repr(v)) for k, v in record.items())) for key, record in call_dict.items()]


def describe_reads(reads):
    out = []
    for read in reads:
        if read is None:
            out.append(None)
            continue
        out.append((read.query_name, read.is_read1, read.reference_start, read.cigarstring,
                    [(t, repr(v)) for t, v in read.get_tags()]))
    return out


def run_molecule(label, molecule_class, fragments, reference, taps, **kwargs):
    try:
        molecule = molecule_class(fragments, reference=reference, taps=taps, **kwargs)
        molecule.__finalise__()
    except Exception as e:  # errors are observable behaviour as well
        emit(label, 'EXC', type(e).__name__, str(e))
        return None
    reads = list(molecule.iter_reads())
    emit(label, molecule.chromosome, molecule.strand, kwargs.get('taps_strand'),
         describe_call_dict(molecule.methylation_call_dict),
         describe_reads(reads),
         molecule.is_valid(set_rejection_reasons=True),
         sorted(str(r) for f in molecule for r in [f.get_meta('RR') if hasattr(f, 'get_meta') else None]))
    # the call strings must be repeatable: call a second time on the same molecule
    try:
        again = molecule.obtain_methylation_calls()
        emit(label, 'again', describe_call_dict(again), describe_reads(reads))
    except Exception as e:
        emit(label, 'again-EXC', type(e).__name__, str(e))
    return molecule


# ---------------------------------------------------------------- main
def main():
    workdir = tempfile.mkdtemp(prefix='demo_c14_')
    try:
        ref_path = os.path.join(workdir, 'ref.fa')
        contigs = build_reference(ref_path)
        header = pysam.AlignmentHeader.from_references(list(contigs), [len(s) for s in contigs.values()])
        taps = TAPS()
        emit('context_mapping', sorted((k, sorted(v.items())) for k, v in taps.context_mapping.items()),
             [list(v.items()) for v in (taps.context_mapping[False], taps.context_mapping[True])],
             taps.taps_strand, taps.overlap_tag)
        emit('taps_R', TAPS(taps_strand='R').taps_strand)
        for bad in (dict(reference=1), dict(reference_variants=1)):
            try:
                TAPS(**bad)
                emit('TAPS-init', bad, 'ok')
            except Exception as e:
                emit('TAPS-init', sorted(bad), type(e).__name__, str(e))

        with pysam.FastaFile(ref_path) as reference:

            # ---- 1. exhaustive grid over position_to_context
            for contig, sequence in contigs.items():
                positions = list(range(-3, len(sequence) + 4)) if len(sequence) < 200 else \
                    list(range(-3, 12)) + list(range(len(sequence) - 12, len(sequence) + 4)) + \
                    rng.sample(range(12, len(sequence) - 12), 40)
                for position in positions:
                    for ref_base in ('C', 'G', 'A', 'T', 'N', 'c', 'g', ''):
                        for observed in ('A', 'C', 'G', 'T', 'N', 'a', 'c', 'g', 't', '-', ''):
                            for strand in (False, True):
                                try:
                                    result = taps.position_to_context(
                                        chromosome=contig, position=position, ref_base=ref_base,
                                        observed_base=observed, strand=strand, reference=reference)
                                except Exception as e:
                                    result = ('EXC', type(e).__name__, str(e))
                                emit('p2c', contig, position, ref_base, observed, strand, result)
            # default observed base, unknown contig, missing arguments
            for kwargs in (dict(chromosome='chrRand', position=10, ref_base='C', strand=True, reference=reference),
                           dict(chromosome='chrNope', position=10, ref_base='C', strand=True, reference=reference),
                           dict(chromosome='chrNope', position=10, ref_base='G', strand=False, reference=reference),
                           dict(chromosome='chrNope', position=10, ref_base='A', strand=False, reference=reference),
                           dict(chromosome='chrRand', position=10, ref_base='C', strand=None, reference=reference),
                           dict(chromosome='chrRand', position=10, ref_base='C', strand=True, reference=None)):
                try:
                    result = taps.position_to_context(**kwargs)
                except Exception as e:
                    result = ('EXC', type(e).__name__, str(e))
                emit('p2c-extra', sorted((k, str(v) if k != 'reference' else v is None) for k, v in kwargs.items()), result)

            # ---- 2. simulated molecules
            layouts = ['inward', 'overlap', 'dove', 'dove2', 'single', 'contained']
            classes = [(TAPSMolecule, Fragment), (TAPSNlaIIIMolecule, NlaIIIFragment),
                       (TAPSCHICMolecule, CHICFragment)]
            n = 0
            for contig, sequence in contigs.items():
                clen = len(sequence)
                for rep in range(70 if clen > 100 else 24):
                    n += 1
                    strand = bool(rng.getrandbits(1))
                    taps_strand = rng.choice('FR')
                    layout = rng.choice(layouts)
                    molecule_class, fragment_class = rng.choice(classes)
                    converted = ('G' if strand else 'C') if taps_strand == 'F' else ('C' if strand else 'G')
                    if clen < 20:
                        frag_start = rng.randint(0, max(0, clen - 1))
                        frag_end = rng.randint(frag_start + 1, clen)
                    else:
                        choice = rep % 4
                        length = rng.randint(12, min(90, clen))
                        if choice == 0:
                            frag_start = 0  # touches the start of the contig
                        elif choice == 1:
                            frag_start = clen - length  # touches the end of the contig
                        else:
                            frag_start = rng.randint(0, clen - length)
                        frag_end = frag_start + length
                    methylation_rate = rng.choice([0.0, 0.2, 0.5, 0.8, 1.0])
                    error_rate = rng.choice([0.0, 0.0, 0.02, 0.1])
                    n_fragments = rng.choice([1, 1, 1, 2, 2, 3, 4])
                    with_md = rng.random() > 0.06
                    indels = rng.random() < 0.25
                    softclip = rng.random() < 0.2
                    fragments = []
                    for f in range(n_fragments):
                        # duplicates of a molecule: same span, individual conversions/errors -> ties and majority votes
                        frag_methylation = methylation_rate if rng.random() < 0.7 else rng.choice([0.0, 0.5, 1.0])
                        fragments.append(simulate_fragment(
                            header, contig, sequence, frag_start, frag_end, strand, f'mol{n}_dup{f}', converted,
                            frag_methylation, error_rate, layout if f == 0 or rng.random() < 0.7 else rng.choice(layouts),
                            fragment_class, with_md=with_md, indels=indels, softclip=softclip))
                    kwargs = dict(taps_strand=taps_strand)
                    if rng.random() < 0.3:
                        kwargs['allow_unsafe_base_calls'] = True
                    if rng.random() < 0.2:
                        kwargs['methylation_consensus_kwargs'] = rng.choice([
                            dict(min_phred_score=20), dict(skip_first_n_cycles_R1=3, skip_last_n_cycles_R2=2),
                            dict(dove_R1_distance=2, dove_R2_distance=3), dict()])
                    label = f'mol{n}:{molecule_class.__name__}:{layout}:{n_fragments}:{with_md}:{sorted(kwargs.items())}'
                    molecule = run_molecule(label, molecule_class, fragments, reference, taps, **kwargs)

                    # ---- 3. direct use of the tag writer on the simulated reads
                    if molecule is not None and rep % 3 == 0:
                        reads = [r for r in molecule.iter_reads()]
                        positions = sorted({rpos for r in reads for _, rpos in r.get_aligned_pairs(matches_only=True)})
                        letters = 'zZxXhH.'
                        call_dict = {}
                        for rpos in positions:
                            roll = rng.random()
                            if roll < 0.5:
                                call_dict[(contig, rpos)] = {'context': rng.choice(letters), 'consensus': 'T',
                                                             'reference_base': 'C'}
                            elif roll < 0.55:
                                call_dict[(contig, rpos)] = {'consensus': 'T'}  # record without context
                            elif roll < 0.6:
                                call_dict[('chrOther', rpos)] = {'context': 'Z'}  # other contig, counts but not in XM
                        if rep % 9 == 0:
                            call_dict = {}  # empty call dictionary
                        variants = [dict(), dict(reads=reads[:1]), dict(reads=[]),
                                    dict(bismark_call_tag='xm', total_methylated_tag='mc', total_unmethylated_tag='uc',
                                         total_methylated_CPG_tag='aZ', total_unmethylated_CPG_tag='az',
                                         total_methylated_CHH_tag='aH', total_unmethylated_CHH_tag='ah',
                                         total_methylated_CHG_tag='aX', total_unmethylated_CHG_tag='ax'),
                                    # the same tag for several totals: the last write wins
                                    dict(total_methylated_tag='tt', total_unmethylated_tag='tt',
                                         total_methylated_CPG_tag='tt', total_unmethylated_CHG_tag='tt')]
                        variant = variants[(rep // 3) % len(variants)]
                        try:
                            returned = molecule.set_methylation_call_tags(call_dict, **variant)
                            emit(label, 'direct', sorted(variant, key=str) if 'reads' not in variant else len(variant['reads']),
                                 returned, molecule.methylation_call_dict is call_dict,
                                 describe_call_dict(call_dict), describe_reads(reads))
                        except Exception as e:
                            emit(label, 'direct-EXC', type(e).__name__, str(e), describe_reads(reads))

            # ---- 4. hand made corner cases
            seq = contigs['chrShort']  # GCCGGCATGCGC
            for strand in (False, True):
                for taps_strand in 'FR':
                    converted = ('G' if strand else 'C') if taps_strand == 'F' else ('C' if strand else 'G')
                    for rate in (0.0, 1.0):
                        # a fragment spanning a whole contig: contexts truncated on both sides
                        fragment = simulate_fragment(header, 'chrShort', seq, 0, len(seq), strand, 'whole', converted,
                                                     rate, 0.0, 'overlap', Fragment)
                        run_molecule(f'whole:{strand}:{taps_strand}:{rate}', TAPSMolecule, [fragment], reference, taps,
                                     taps_strand=taps_strand)
                        # two identical span fragments with opposite conversion state: every C is a tie
                        frag_a = simulate_fragment(header, 'chrEdge', contigs['chrEdge'], 0, 40, strand, 'tieA',
                                                   converted, 0.0, 0.0, 'overlap', Fragment)
                        frag_b = simulate_fragment(header, 'chrEdge', contigs['chrEdge'], 0, 40, strand, 'tieB',
                                                   converted, 1.0, 0.0, 'overlap', Fragment)
                        run_molecule(f'tie:{strand}:{taps_strand}:{rate}', TAPSMolecule, [frag_a, frag_b], reference,
                                     taps, taps_strand=taps_strand)
                        # contig without any C or G: no calls at all
                        fragment = simulate_fragment(header, 'chrAT', contigs['chrAT'], 5, 60, strand, 'nocg', converted,
                                                     rate, 0.0, 'inward', Fragment)
                        run_molecule(f'nocg:{strand}:{taps_strand}:{rate}', TAPSMolecule, [fragment], reference, taps,
                                     taps_strand=taps_strand)
                        # two base contig
                        fragment = simulate_fragment(header, 'chrTiny', contigs['chrTiny'], 0, 2, strand, 'tiny',
                                                     converted, rate, 0.0, 'overlap', Fragment)
                        run_molecule(f'tiny:{strand}:{taps_strand}:{rate}', TAPSMolecule, [fragment], reference, taps,
                                     taps_strand=taps_strand, allow_unsafe_base_calls=rate == 0.0)
            # no taps instance
            try:
                TAPSMolecule([], reference=reference, taps=None)
                emit('notaps', 'ok')
            except Exception as e:
                emit('notaps', type(e).__name__, str(e))
    finally:
        shutil.rmtree(workdir, ignore_errors=True)

    print(f'records: {n_records}')
    print(digest.hexdigest())


if __name__ == '__main__':
    np.random.seed(7)
    main()
