#!/usr/bin/env python
"""Differential script for the C09 refactoring (cut-site identification).

Builds simulated NlaIII / CHIC fragments from random references, instantiates
the fragment classes with many option combinations and prints a sha256 digest
over everything observable: return value of identify_site, meta dictionary
(ordered), site location, strands, validity, match hash, per-read tags
(ordered), qcfail flags, repr and pairwise equality.
"""
import hashlib
import itertools
import os
import random
import tempfile

import pysam

from singlecellmultiomics.fragment import NlaIIIFragment, CHICFragment
from singlecellmultiomics.molecule import NlaIIIMolecule, CHICMolecule

rng = random.Random(9009)
COMP = {'A': 'T', 'C': 'G', 'G': 'C', 'T': 'A', 'N': 'N'}


def revcomp(s):
    return ''.join(COMP[b] for b in reversed(s))


def random_seq(n):
    # avoid accidental CATG: build then scrub
    s = ''.join(rng.choice('ACGT') for _ in range(n))
    while 'CATG' in s:
        i = s.index('CATG')
        s = s[:i] + 'CTTG' + s[i + 4:]
    return s


CONTIG_LEN = 1500
contigs = {}
sites = {}
for name in ('chr1', 'chr2', 'chrM'):
    s = list(random_seq(CONTIG_LEN))
    positions = list(range(0, CONTIG_LEN - 4, 97))  # includes a site at 0
    for p in positions:
        s[p:p + 4] = 'CATG'
    contigs[name] = ''.join(s)
    sites[name] = positions

header = pysam.AlignmentHeader.from_dict({
    'HD': {'VN': '1.6', 'SO': 'unsorted'},
    'SQ': [{'SN': n, 'LN': len(s)} for n, s in contigs.items()]})

tmpdir = tempfile.mkdtemp(prefix='c09_demo_')
fasta_path = os.path.join(tmpdir, 'ref.fa')
with open(fasta_path, 'w') as f:
    for n, s in contigs.items():
        f.write(f'>{n}\n')
        for i in range(0, len(s), 60):
            f.write(s[i:i + 60] + '\n')
pysam.faidx(fasta_path)
reference = pysam.FastaFile(fasta_path)


def mk_read(name, seq, contig, start, cigartuples, reverse, read1=True,
            unmapped=False, tags=(), qcfail=False, mapq=60):
    r = pysam.AlignedSegment(header)
    r.query_name = name
    r.query_sequence = seq
    r.query_qualities = pysam.qualitystring_to_array('I' * len(seq))
    flag = 0
    if unmapped:
        r.is_unmapped = True
    else:
        r.reference_id = header.get_tid(contig)
        r.reference_start = start
        r.cigartuples = cigartuples
        r.mapping_quality = mapq
    r.is_reverse = reverse
    r.is_read1 = read1
    r.is_read2 = not read1
    r.is_paired = True
    r.is_qcfail = qcfail
    for k, v in tags:
        r.set_tag(k, v)
    return r


def base_tags(i, mx=None, extra=()):
    tags = [('SM', f'cell{i % 3}'), ('RX', rng.choice(['ACG', 'ACT', 'TTT'])),
            ('LY', 'lib'), ('BI', i % 3)]
    if mx is not None:
        tags.append(('MX', mx))
    tags.extend(extra)
    return tags


def mutate(seq, positions):
    s = list(seq)
    for p in positions:
        s[p] = rng.choice([b for b in 'ACGT' if b != s[p]])
    return ''.join(s)


records = []


def observe(label, cls, reads, kwargs):
    rec = [label, cls.__name__, sorted((k, repr(v)) for k, v in kwargs.items() if k != 'reference')]
    try:
        frag = cls(reads, **kwargs)
    except Exception as e:  # noqa
        rec.append(('EXC', type(e).__name__, str(e)))
        records.append(rec)
        return None
    rec.append(('meta', list(frag.meta.items())))
    rec.append(('site', frag.site_location, frag.get_site_location()))
    rec.append(('strand', frag.strand, frag.get_strand(), frag.cut_site_strand))
    rec.append(('valid', frag.found_valid_site, frag.is_valid(), frag.qcfail))
    rec.append(('hash', frag.match_hash))
    rec.append(('sample_umi', frag.sample, frag.umi))
    if cls is CHICFragment:
        rec.append(('lig', frag.ligation_motif, frag.R2_primer_length))
    for r in reads:
        if r is None:
            rec.append(None)
        else:
            rec.append((r.get_tags(), r.is_qcfail, r.flag))
    try:
        rec.append(('repr', repr(frag)))
    except Exception as e:  # noqa
        rec.append(('repr-EXC', type(e).__name__, str(e)))
    # call identify_site a second time (history): record return value and state
    try:
        rv = frag.identify_site()
        rec.append(('again', rv, list(frag.meta.items()), frag.site_location,
                    frag.found_valid_site, frag.cut_site_strand))
        for r in reads:
            if r is not None:
                rec.append((r.get_tags(), r.is_qcfail))
    except Exception as e:  # noqa
        rec.append(('again-EXC', type(e).__name__, str(e)))
    records.append(rec)
    return frag


# ---------------------------------------------------------------- NlaIII ----
def nla_reads(i, contig, site, reverse, paired, clip, motif_mut=(), shift=0,
              read_len=40, r2_unmapped=False, extra_tags=(), hardclip=False,
              clip_other_end=0, r1_qcfail=False):
    """shift: amount of motif bases lost at the read start (cycle shift)"""
    ref = contigs[contig]
    if not reverse:
        mstart = site + shift
        seq = ref[mstart:mstart + read_len]
        m = [p - shift for p in motif_mut if p - shift >= 0]
        seq = mutate(seq, m)
        start = mstart + clip
        aligned = len(seq) - clip - clip_other_end
        cig = ([(4, clip)] if clip else []) + [(0, aligned)] + ([(4, clip_other_end)] if clip_other_end else [])
        if hardclip:
            cig = [(5, 3)] + cig
        r1 = mk_read(f'q{i}', seq, contig, start, cig, False, tags=base_tags(i, extra=extra_tags), qcfail=r1_qcfail)
        r2 = None
        if paired:
            s2 = site + 120
            seq2 = ref[s2:s2 + read_len]
            r2 = mk_read(f'q{i}', seq2, contig, s2, [(0, len(seq2))], True, read1=False,
                         unmapped=r2_unmapped, tags=base_tags(i, extra=extra_tags))
    else:
        mend = site + 4 - shift
        seq = ref[max(0, mend - read_len):mend]
        L = len(seq)
        m = [L - 4 + shift + p for p in motif_mut if p < 4 - shift]
        seq = mutate(seq, m)
        start = mend - L + clip_other_end
        aligned = L - clip - clip_other_end
        cig = ([(4, clip_other_end)] if clip_other_end else []) + [(0, aligned)] + ([(4, clip)] if clip else [])
        if hardclip:
            cig = cig + [(5, 3)]
        r1 = mk_read(f'q{i}', seq, contig, start, cig, True, tags=base_tags(i, extra=extra_tags), qcfail=r1_qcfail)
        r2 = None
        if paired:
            s2 = max(0, site - 160)
            seq2 = ref[s2:s2 + read_len]
            r2 = mk_read(f'q{i}', seq2, contig, s2, [(0, len(seq2))], False, read1=False,
                         unmapped=r2_unmapped, tags=base_tags(i, extra=extra_tags))
    return [r1, r2]


counter = itertools.count()
frags_for_eq = []

OPTION_SETS = [
    {},
    {'allow_cycle_shift': True},
    {'invert_strand': True},
    {'no_umi_cigar_processing': True},
    {'check_motif': False},
    {'check_motif': False, 'allow_cycle_shift': True, 'invert_strand': True},
    {'use_allele_tag': True},
    {'allow_cycle_shift': True, 'no_umi_cigar_processing': True, 'max_fragment_size': 100},
    {'max_fragment_size': 1000, 'R1_primer_length': 0, 'R2_primer_length': 0},
]

# systematic sweep
for contig in ('chr1', 'chr2'):
    for site in (sites[contig][3], sites[contig][7]):
        for reverse in (False, True):
            for paired in (False, True):
                for clip in range(0, 7):
                    for shift in (0, 1):
                        opts = OPTION_SETS[next(counter) % len(OPTION_SETS)]
                        i = next(counter)
                        extra = (('DA', rng.choice(['a', 'b'])),) if i % 4 == 0 else ()
                        reads = nla_reads(i, contig, site, reverse, paired, clip, shift=shift, extra_tags=extra)
                        f = observe(f'nla-sys-{contig}-{site}-{reverse}-{paired}-{clip}-{shift}',
                                    NlaIIIFragment, reads, dict(opts))
                        if f is not None:
                            frags_for_eq.append(f)

# mismatches in the motif, every position, with and without shift allowance
for reverse in (False, True):
    for mm in [(0,), (1,), (2,), (3,), (0, 3), (1, 2), (0, 1, 2, 3)]:
        for opts in ({}, {'allow_cycle_shift': True}, {'check_motif': False}):
            for clip in (0, 2):
                i = next(counter)
                reads = nla_reads(i, 'chr1', sites['chr1'][5], reverse, i % 2 == 0, clip, motif_mut=mm)
                observe(f'nla-mm-{reverse}-{mm}-{clip}', NlaIIIFragment, reads, dict(opts))

# motif at the wrong end of the read: forward read that ends in CATG, reverse read that starts with CATG
ref = contigs['chr1']
for opts in ({}, {'allow_cycle_shift': True}):
    s0, s1 = sites['chr1'][4], sites['chr1'][5]
    i = next(counter)
    # forward read spanning from inside up to and including next site (ends with CATG, does not start with it)
    seq = ref[s1 + 4 - 50:s1 + 4]
    r1 = mk_read(f'w{i}', seq, 'chr1', s1 + 4 - 50, [(0, 50)], False, tags=base_tags(i))
    observe('nla-wrong-end-fwd', NlaIIIFragment, [r1, None], dict(opts))
    i = next(counter)
    seq = ref[s0:s0 + 50]
    r1 = mk_read(f'w{i}', seq, 'chr1', s0, [(0, 50)], True, tags=base_tags(i))
    observe('nla-wrong-end-rev', NlaIIIFragment, [r1, None], dict(opts))
    # both ends CATG (read spans exactly site to site)
    for reverse in (False, True):
        i = next(counter)
        seq = ref[s0:s1 + 4]
        r1 = mk_read(f'w{i}', seq, 'chr1', s0, [(0, len(seq))], reverse, tags=base_tags(i))
        observe(f'nla-both-ends-{reverse}', NlaIIIFragment, [r1, None], dict(opts))

# very short reads, hard clips, clips on both ends, qcfail input, unmapped / missing reads
for reverse in (False, True):
    for L in (1, 2, 3, 4, 5):
        i = next(counter)
        reads = nla_reads(i, 'chr2', sites['chr2'][2], reverse, False, 0, read_len=L)
        observe(f'nla-short-{reverse}-{L}', NlaIIIFragment, reads, {'allow_cycle_shift': True})
    for clip, other in ((0, 3), (2, 3), (4, 1), (6, 6)):
        for hard in (False, True):
            i = next(counter)
            reads = nla_reads(i, 'chr2', sites['chr2'][6], reverse, True, clip, clip_other_end=other, hardclip=hard)
            observe(f'nla-clips-{reverse}-{clip}-{other}-{hard}', NlaIIIFragment, reads,
                    {'no_umi_cigar_processing': i % 3 == 0})
    i = next(counter)
    reads = nla_reads(i, 'chr2', sites['chr2'][6], reverse, True, 1, r1_qcfail=True)
    observe(f'nla-qcfail-in-{reverse}', NlaIIIFragment, reads, {})
    i = next(counter)
    reads = nla_reads(i, 'chr2', sites['chr2'][6], reverse, True, 0, r2_unmapped=True)
    observe(f'nla-r2-unmapped-{reverse}', NlaIIIFragment, reads, {})
    # site at coordinate 0 of the contig
    i = next(counter)
    reads = nla_reads(i, 'chrM', 0, reverse, False, 0, read_len=4 if reverse else 30)
    observe(f'nla-site0-{reverse}', NlaIIIFragment, reads, {})
    i = next(counter)
    reads = nla_reads(i, 'chrM', 0, False, False, 3)
    observe(f'nla-site0-clip-{reverse}', NlaIIIFragment, reads, {'invert_strand': reverse})

i = next(counter)
r1u = mk_read(f'u{i}', 'CATGAAACCCGGGTTT', None, 0, None, False, unmapped=True, tags=base_tags(i))
r2m = mk_read(f'u{i}', contigs['chr1'][300:330], 'chr1', 300, [(0, 30)], True, read1=False, tags=base_tags(i))
observe('nla-r1-unmapped', NlaIIIFragment, [r1u, r2m], {})
i = next(counter)
r2m = mk_read(f'u{i}', contigs['chr1'][300:330], 'chr1', 300, [(0, 30)], True, read1=False, tags=base_tags(i))
observe('nla-r1-none', NlaIIIFragment, [None, r2m], {})
observe('nla-bad-args-1', NlaIIIFragment, [None, r2m], {'no_overhang': True})
observe('nla-bad-args-2', NlaIIIFragment, [None, r2m], {'no_overhang': True, 'reference': reference, 'check_motif': False})

# no_overhang mode: CATG lies outside the read, in the reference
for contig in ('chr1', 'chrM'):
    for site in (0, sites[contig][1], sites[contig][8]):
        for reverse in (False, True):
            for gap in (0, 1, 2, 3, 4, 5):
                for offset in (-4, -6):
                    i = next(counter)
                    refseq = contigs[contig]
                    if reverse:
                        # read ends `gap` bases before the motif
                        end = site - gap
                        start = end - 35
                        if start < 0:
                            continue
                    else:
                        start = site + 4 + gap
                        end = start + 35
                    seq = refseq[start:end]
                    r1 = mk_read(f'n{i}', seq, contig, start, [(0, len(seq))], reverse, tags=base_tags(i))
                    observe(f'nla-noov-{contig}-{site}-{reverse}-{gap}-{offset}', NlaIIIFragment, [r1, None],
                            {'no_overhang': True, 'reference': reference, 'cut_location_offset': offset,
                             'invert_strand': i % 2 == 0})

# random noise reads
for n in range(150):
    i = next(counter)
    contig = rng.choice(['chr1', 'chr2'])
    L = rng.randint(4, 60)
    start = rng.randint(0, CONTIG_LEN - 100)
    seq = ''.join(rng.choice('ACGT') for _ in range(L))
    head = rng.choice(['CATG', 'ATG', 'CAT', 'ATGC', 'CATC', '', 'GTAC'])
    tail = rng.choice(['CATG', 'ATG', 'CAT', 'GCAT', 'CATC', '', 'GTAC'])
    seq = (head + seq + tail)[:70]
    L = len(seq)
    c0 = rng.choice([0, 0, 1, 2, 5])
    c1 = rng.choice([0, 0, 1, 3, 6])
    if c0 + c1 >= L:
        c0 = c1 = 0
    cig = ([(4, c0)] if c0 else []) + [(0, L - c0 - c1)] + ([(4, c1)] if c1 else [])
    reverse = rng.random() < 0.5
    r1 = mk_read(f'r{i}', seq, contig, start, cig, reverse, tags=base_tags(i))
    opts = dict(rng.choice(OPTION_SETS))
    f = observe(f'nla-rand-{n}', NlaIIIFragment, [r1, None] if n % 10 else [r1], opts)

# equality / deduplication between all systematic fragments with the same options
eq_bits = []
for a, b in itertools.combinations(frags_for_eq[::3], 2):
    try:
        eq_bits.append('1' if a == b else '0')
    except Exception as e:  # noqa
        eq_bits.append('E')
records.append(('nla-eq', ''.join(eq_bits)))


# ------------------------------------------------------------------ CHIC ----
def chic_reads(i, contig, cut, reverse, paired, clip, mx, lh=None, r2_same_strand=False,
               r2_unmapped=False, read_len=36, qcfail=False):
    ref = contigs[contig]
    extra = (('lh', lh),) if lh is not None else ()
    if not reverse:
        start = cut
        seq = ref[start - clip:start - clip + read_len]
        cig = ([(4, clip)] if clip else []) + [(0, len(seq) - clip)]
        r1 = mk_read(f'c{i}', seq, contig, start, cig, False, tags=base_tags(i, mx, extra), qcfail=qcfail)
        r2 = None
        if paired:
            s2 = cut + 150
            seq2 = ref[s2:s2 + read_len]
            r2 = mk_read(f'c{i}', seq2, contig, s2, [(0, len(seq2))], not r2_same_strand, read1=False,
                         unmapped=r2_unmapped, tags=base_tags(i, mx, extra))
    else:
        end = cut
        seq = ref[end + clip - read_len:end + clip]
        cig = [(0, len(seq) - clip)] + ([(4, clip)] if clip else [])
        r1 = mk_read(f'c{i}', seq, contig, end + clip - read_len, cig, True, tags=base_tags(i, mx, extra), qcfail=qcfail)
        r2 = None
        if paired:
            s2 = cut - 200
            seq2 = ref[s2:s2 + read_len]
            r2 = mk_read(f'c{i}', seq2, contig, s2, [(0, len(seq2))], r2_same_strand, read1=False,
                         unmapped=r2_unmapped, tags=base_tags(i, mx, extra))
    return [r1, r2]


CHIC_OPTS = [
    {},
    {'invert_strand': True},
    {'no_umi_cigar_processing': True},
    {'assignment_radius': 5},
    {'invert_strand': True, 'no_umi_cigar_processing': True, 'assignment_radius': 2},
    {'max_fragment_size': 100},
    {'max_fragment_size': 2000},
]
MXS = [None, 'scCHIC384C8U3', 'scCHIC384C8U3l', 'CS2C8U6', 'NLAIII384C8U3']

chic_frags = []
for contig in ('chr1', 'chr2'):
    for cut in (400, 777):
        for reverse in (False, True):
            for paired in (False, True):
                for clip in range(0, 7):
                    for mx in MXS:
                        i = next(counter)
                        opts = CHIC_OPTS[i % len(CHIC_OPTS)]
                        lh = rng.choice([None, 'TA', 'AA', 'TT'])
                        reads = chic_reads(i, contig, cut, reverse, paired, clip, mx, lh=lh)
                        f = observe(f'chic-sys-{contig}-{cut}-{reverse}-{paired}-{clip}-{mx}', CHICFragment,
                                    reads, dict(opts))
                        if f is not None:
                            chic_frags.append(f)

# orientation problems, unmapped mates, qcfail input, missing reads
for reverse in (False, True):
    for mx in (None, 'scCHIC384C8U3'):
        i = next(counter)
        observe(f'chic-orient-{reverse}-{mx}', CHICFragment,
                chic_reads(i, 'chr1', 600, reverse, True, 1, mx, r2_same_strand=True), {})
        i = next(counter)
        observe(f'chic-r2unm-{reverse}-{mx}', CHICFragment,
                chic_reads(i, 'chr1', 600, reverse, True, 1, mx, r2_unmapped=True), {})
        i = next(counter)
        observe(f'chic-r2unm-same-{reverse}-{mx}', CHICFragment,
                chic_reads(i, 'chr1', 600, reverse, True, 2, mx, r2_unmapped=True, r2_same_strand=True), {})
        i = next(counter)
        observe(f'chic-qcfail-{reverse}-{mx}', CHICFragment,
                chic_reads(i, 'chr1', 600, reverse, True, 2, mx, qcfail=True), {})
        i = next(counter)
        reads = chic_reads(i, 'chr1', 600, reverse, True, 0, mx)
        observe(f'chic-r1none-{reverse}-{mx}', CHICFragment, [None, reads[1]], {})
        i = next(counter)
        reads = chic_reads(i, 'chr1', 600, reverse, False, 0, mx)
        observe(f'chic-single-list-{reverse}-{mx}', CHICFragment, reads[:1], {})
        i = next(counter)
        r1u = mk_read(f'cu{i}', 'TACGTACGGGACCA', None, 0, None, reverse, unmapped=True, tags=base_tags(i, mx))
        observe(f'chic-r1unm-{reverse}-{mx}', CHICFragment, [r1u, None], {})
        # cut site at the contig edge (negative / zero coordinates)
        i = next(counter)
        seq = contigs['chrM'][0:30]
        r1 = mk_read(f'ce{i}', seq, 'chrM', 0, [(0, 30)], reverse, tags=base_tags(i, mx))
        observe(f'chic-edge-{reverse}-{mx}', CHICFragment, [r1, None], {})
        i = next(counter)
        r1 = mk_read(f'ce{i}', seq, 'chrM', 3, [(4, 3), (0, 27)] if not reverse else [(0, 27), (4, 3)], reverse,
                     tags=base_tags(i, mx))
        observe(f'chic-edge-clip-{reverse}-{mx}', CHICFragment, [r1, None], {})
# homopolymer rejection still goes through identify_site
i = next(counter)
r1 = mk_read(f'hp{i}', 'T' + 'A' * 20 + 'CGTAGCTAGCTAGT', 'chr1', 500, [(0, 35)], False, tags=base_tags(i, 'scCHIC384C8U3'))
observe('chic-homopolymer', CHICFragment, [r1, None], {})

# mirrored fragments: build the same cut on the reverse complemented reference
rc_contigs = {n: revcomp(s) for n, s in contigs.items()}
for cut in (300, 301, 555, 900):
    for clip in (0, 1, 4):
        for mx in (None, 'scCHIC384C8U3'):
            i = next(counter)
            fwd = chic_reads(i, 'chr1', cut, False, False, clip, mx)
            fa = observe(f'chic-mirror-a-{cut}-{clip}-{mx}', CHICFragment, fwd, {})
            # mirrored read on the reverse complemented contig
            L = len(contigs['chr1'])
            seq = fwd[0].query_sequence
            mseq = revcomp(seq)
            ref_start = L - fwd[0].reference_end
            cig = list(reversed(fwd[0].cigartuples))
            r1 = mk_read(f'c{i}', mseq, 'chr1', ref_start, cig, True, tags=[t for t in base_tags(i, mx)])
            r1.set_tag('SM', fwd[0].get_tag('SM'))
            r1.set_tag('RX', fwd[0].get_tag('RX'))
            fb = observe(f'chic-mirror-b-{cut}-{clip}-{mx}', CHICFragment, [r1, None], {})
            records.append(('mirror', cut, clip, mx, fa.site_location, fb.site_location,
                            fa.site_location[1] + fb.site_location[1]))

eq_bits = []
for a, b in itertools.combinations(chic_frags[::7], 2):
    try:
        eq_bits.append('1' if a == b else '0')
    except Exception as e:  # noqa
        eq_bits.append('E')
records.append(('chic-eq', ''.join(eq_bits)))

# ------------------------------------------------- molecules (dedup level) ---
for cls_f, cls_m, builder in (
        (NlaIIIFragment, NlaIIIMolecule,
         lambda i, rev, clip: nla_reads(i, 'chr1', sites['chr1'][9], rev, True, clip)),
        (CHICFragment, CHICMolecule,
         lambda i, rev, clip: chic_reads(i, 'chr1', 880, rev, True, clip, 'scCHIC384C8U3'))):
    molecules = []
    for rev in (False, True):
        for clip in (0, 0, 2, 5):
            i = next(counter)
            reads = builder(i, rev, clip)
            for r in reads:
                r.set_tag('SM', 'cellX')
                r.set_tag('RX', 'ACG')
            frag = cls_f(reads)
            for m in molecules:
                if m.add_fragment(frag, use_hash=True):
                    break
            else:
                m = cls_m(frag)
                molecules.append(m)
    records.append((cls_m.__name__, [(len(m), m.fragments[0].match_hash) for m in molecules]))

blob = '\n'.join(repr(r) for r in records)
print('records:', len(records))
print('valid fragments:', sum(1 for r in records if any(isinstance(x, tuple) and x and x[0] == 'valid' and x[2] for x in r if x is not None)))
print('sha256:', hashlib.sha256(blob.encode()).hexdigest())
