#!/usr/bin/env python
"""Differential script for the C12 preserving refactoring of bamBinCounts.py.

Builds a handful of tagged BAM files, runs generate_jobs / generate_commands /
count_fragments_binned / obtain_counts / read_counts over a few hundred
parameter combinations (including job-boundary sites, sites far from the read
start, empty contigs, zero widths and fault cases) and prints a sha256 digest
over everything that was observed.
"""
import contextlib
import hashlib
import io
import itertools
import os
import random
import sys
import tempfile

import pysam

from singlecellmultiomics.bamProcessing import bamBinCounts as bbc

H = hashlib.sha256()
N_RECORDS = 0


TMP_DIR = None
DUMP = open(os.environ['DEMO_DUMP'], 'w') if os.environ.get('DEMO_DUMP') else None


def record(*items):
    global N_RECORDS
    N_RECORDS += 1
    line = repr(items)
    if TMP_DIR is not None:
        # error messages mention the (random) temporary directory
        line = line.replace(TMP_DIR, '<TMP>')
    H.update(line.encode())
    H.update(b'\n')
    if DUMP is not None:
        DUMP.write(line + '\n')


def outcome(f, *a, **k):
    """Return ('ok', value) or ('err', type name, message)"""
    try:
        return ('ok', f(*a, **k))
    except Exception as e:  # noqa
        return ('err', type(e).__name__, str(e))


CONTIGS = [('chr1', 10_000), ('chr2', 3_500), ('chrE', 500), ('chr3', 1), ('chr4', 1_000)]


def make_read(header, name, contig, pos, flag, mapq, tags, length=40, cigar=None):
    r = pysam.AlignedSegment(header)
    r.query_name = name
    r.reference_id = header.get_tid(contig)
    r.reference_start = pos
    r.flag = flag
    r.mapping_quality = mapq
    r.cigarstring = cigar if cigar is not None else f'{length}M'
    r.query_sequence = 'A' * length
    r.query_qualities = pysam.qualitystring_to_array('I' * length)
    if flag & 1:
        r.next_reference_id = r.reference_id
        r.next_reference_start = pos
    r.set_tags(tags)
    return r


def build_bam(path, seed, boundaries, n_random=400, with_tags=True):
    rng = random.Random(seed)
    header = pysam.AlignmentHeader.from_dict({
        'HD': {'VN': '1.6', 'SO': 'unsorted'},
        'SQ': [{'SN': c, 'LN': l} for c, l in CONTIGS]})
    reads = []
    n = 0

    def add(contig, pos, flag=65, mapq=60, ds=None, sm='cell_0', extra=(), **kw):
        nonlocal n
        tags = []
        if ds is not None:
            tags.append(('DS', ds))
        if sm is not None:
            tags.append(('SM', sm))
        tags.extend(extra)
        reads.append(make_read(header, f'r{n}', contig, pos, flag, mapq, tags, **kw))
        n += 1

    sizes = dict(CONTIGS)
    # Planted: sites exactly on / next to every job and bin boundary
    for contig in ('chr1', 'chr2', 'chr4'):
        for b in boundaries:
            for site in (b - 1, b, b + 1):
                if 0 <= site < sizes[contig]:
                    # read starts at the site
                    add(contig, site, ds=site, sm=f'cell_{site % 3}')
                    # read starts well before / after the site (site far from read start)
                    for delta in (-900, -60, 45, 700):
                        start = site + delta
                        if 0 <= start < sizes[contig] - 40:
                            add(contig, start, ds=site, sm=f'cell_{(site + delta) % 4}',
                                extra=[('DA', 'ab'[site % 2])] if with_tags else ())
    # first and last base of the contigs
    for contig, length in CONTIGS:
        if contig == 'chrE':
            continue
        add(contig, 0, ds=0)
        add(contig, max(0, length - 1), ds=length - 1, length=1)
        add(contig, 0, ds=None, sm=None, length=1)
    # DS beyond the contig end and negative DS
    add('chr2', 3400, ds=3500)
    add('chr2', 3400, ds=4200)
    add('chr1', 10, ds=-5)
    # DS stored as a string
    add('chr1', 500, ds='1234')

    # Random reads with all kinds of flags and tags
    for _ in range(n_random):
        contig = rng.choice(['chr1', 'chr1', 'chr2', 'chr4'])
        length = sizes[contig]
        pos = rng.randrange(0, length - 41)
        flag = rng.choice([65, 65, 65, 81, 97, 129, 145, 0, 16, 64, 128,
                           65 | 1024, 65 | 512, 65 | 1024 | 512, 65 | 256, 65 | 2048])
        mapq = rng.choice([0, 1, 29, 30, 31, 49, 50, 59, 60, 255])
        ds_mode = rng.random()
        if ds_mode < 0.6:
            ds = max(0, min(length - 1, pos + rng.randrange(-1000, 1000)))
        elif ds_mode < 0.8:
            ds = pos
        else:
            ds = None
        sm = rng.choice(['cell_0', 'cell_1', 'cell_2', 'cell_3', 'cell_4', '', None])
        extra = []
        if with_tags:
            m = rng.random()
            if m < 0.2:
                extra.append(('mp', 'unique'))
            elif m < 0.35:
                extra.append(('mp', 'multi'))
            a = rng.random()
            if a < 0.3:
                extra.append(('DA', 'a'))
            elif a < 0.6:
                extra.append(('DA', 'b'))
            if rng.random() < 0.2:
                extra.append(('XX', rng.randrange(0, 3)))
        cigar = rng.choice([None, None, '10S30M', '20M100N20M', '5M2D35M'])
        add(contig, pos, flag=flag, mapq=mapq, ds=ds, sm=sm, extra=extra, cigar=cigar)

    unsorted = path + '.unsorted.bam'
    with pysam.AlignmentFile(unsorted, 'wb', header=header) as out:
        for r in reads:
            out.write(r)
    pysam.sort('-o', path, unsorted)
    os.remove(unsorted)
    pysam.index(path)
    return len(reads)


def run_all_jobs(path, bin_size, bins_per_job, max_fragment_size, min_mq, key_tags, dedup,
                 kwargs, alt_spans=None, head=None, skip_contigs=None):
    """Single process: generate the commands and count every one of them, keep ordering"""
    out = []
    commands = outcome(lambda: list(bbc.generate_commands(
        path, bin_size=bin_size, bins_per_job=bins_per_job, alt_spans=alt_spans, min_mq=min_mq,
        max_fragment_size=max_fragment_size, head=head, key_tags=key_tags, dedup=dedup,
        kwargs=kwargs, skip_contigs=skip_contigs)))
    if commands[0] == 'err':
        return commands
    merged = {}
    total = 0
    for cmd in commands[1]:
        res = outcome(bbc.count_fragments_binned, cmd)
        if res[0] == 'ok':
            # keep insertion order of the bins and of the samples
            as_list = [(k, list(v.items())) for k, v in res[1].items()]
            out.append((cmd[3:6], as_list))
            for k, v in res[1].items():
                assert type(v) is dict
                for s, c in v.items():
                    merged.setdefault(k, {})
                    merged[k][s] = merged[k].get(s, 0) + c
                    total += c
        else:
            out.append((cmd[3:6], res))
    return ('ok', out, sorted(((k, sorted(v.items(), key=repr)) for k, v in merged.items()), key=repr), total)


class FakeRead:
    def __init__(self, is_read1, is_qcfail, is_duplicate, mp, mapq):
        self.is_read1 = is_read1
        self.is_qcfail = is_qcfail
        self.is_duplicate = is_duplicate
        self.mp = mp
        self.mapping_quality = mapq

    def has_tag(self, t):
        return t == 'mp' and self.mp is not None

    def get_tag(self, t):
        if t == 'mp' and self.mp is not None:
            return self.mp
        raise KeyError(t)


def main():
    rng = random.Random(1212)
    global TMP_DIR
    with tempfile.TemporaryDirectory() as tmp:
        TMP_DIR = tmp
        boundaries = sorted(set(
            [0, 100, 250, 300, 333, 500, 666, 750, 999, 1000, 1500, 2000, 2331, 2500, 3000, 3330, 3499,
             3500, 5000, 7000, 7500, 9000, 9990, 9999]))
        bam_a = os.path.join(tmp, 'a.bam')
        bam_b = os.path.join(tmp, 'b.bam')
        bam_plain = os.path.join(tmp, 'plain.bam')
        bam_empty = os.path.join(tmp, 'empty.bam')
        record('n_reads', build_bam(bam_a, 1, boundaries))
        record('n_reads', build_bam(bam_b, 2, boundaries[::3], n_random=150))
        record('n_reads', build_bam(bam_plain, 3, [1000, 2000], n_random=60, with_tags=False))
        # A BAM without any reads
        header = pysam.AlignmentHeader.from_dict({'HD': {'VN': '1.6', 'SO': 'coordinate'},
                                                  'SQ': [{'SN': c, 'LN': l} for c, l in CONTIGS]})
        with pysam.AlignmentFile(bam_empty, 'wb', header=header):
            pass
        pysam.index(bam_empty)
        # A BAM without contigs
        bam_nocontig = os.path.join(tmp, 'nocontig.bam')
        with pysam.AlignmentFile(bam_nocontig, 'wb',
                                 header=pysam.AlignmentHeader.from_dict({'HD': {'VN': '1.6'}})):
            pass
        # An un-indexed copy
        bam_noindex = os.path.join(tmp, 'noindex.bam')
        with open(bam_plain, 'rb') as f, open(bam_noindex, 'wb') as o:
            o.write(f.read())

        # ---- 1. generate_jobs ----
        for path in (bam_a, bam_empty, bam_nocontig):
            for bin_size, bpj in itertools.product([1, 7, 100, 333, 1000, 3500, 10_000, 50_000],
                                                   [1, 2, 3, 10]):
                record('jobs', os.path.basename(path), bin_size, bpj,
                       outcome(lambda: list(bbc.generate_jobs(path, bin_size=bin_size, bins_per_job=bpj)))
                       if bin_size * bpj >= 50 else
                       outcome(lambda: list(itertools.islice(
                           bbc.generate_jobs(path, bin_size=bin_size, bins_per_job=bpj), 2000))))
        for bad in [(0, 3), (100, 0), (-100, 2), (100, -2), (2.5, 2), (None, 2), ('a', 2)]:
            for path in (bam_a, bam_nocontig, os.path.join(tmp, 'missing.bam')):
                record('jobs-bad', os.path.basename(path), bad, outcome(
                    lambda: list(bbc.generate_jobs(path, bin_size=bad[0], bins_per_job=bad[1]))))
        # generate_jobs is lazy: nothing is opened until iterated
        g = bbc.generate_jobs(os.path.join(tmp, 'missing.bam'))
        record('lazy', type(g).__name__)
        record('lazy-next', outcome(lambda: next(g)))
        record('defaults', list(bbc.generate_jobs(bam_a)))

        # ---- 2. generate_commands ----
        for head, skip, paths in itertools.product(
                [None, 0, 1, 2, 5, 1000], [None, [], ['chr1'], {'chr2', 'chrE'}, 'chr1'],
                [bam_a, [bam_a, bam_b], [], [bam_empty, bam_a]]):
            res = outcome(lambda: list(bbc.generate_commands(
                paths, bin_size=500, bins_per_job=3, head=head, skip_contigs=skip,
                key_tags=['DA'], kwargs={'k': 1}, alt_spans=None, min_mq=12, max_fragment_size=77, dedup=False)))
            if res[0] == 'ok':
                res = ('ok', [tuple(os.path.basename(c[0]) if i == 0 else c[i] for i in range(len(c)))
                              for c in res[1]])
            record('commands', head, sorted(skip) if isinstance(skip, set) else skip,
                   [os.path.basename(p) for p in paths] if isinstance(paths, list) else os.path.basename(paths), res)

        # ---- 3. count_fragments_binned over complete job sets ----
        bin_sizes = [100, 250, 333, 500, 1000, 2500, 3500, 5000, 20_000]
        bpjs = [1, 2, 3, 5, 7, 50]
        mfs = [0, 1, 50, 1000, 100_000]
        mqs = [None, 0, 30, 31, 60, 61, 256]
        key_tag_options = [None, [], ['DA'], ['DA', 'XX'], ['SM']]
        combos = list(itertools.product(bin_sizes, bpjs, mfs, mqs, key_tag_options, [True, False],
                                        [{}, {'ignore_mp': True}, {'ignore_mp': False, 'other': 1}]))
        rng.shuffle(combos)
        # make sure the whole bins-per-job range is covered for a few fixed settings
        fixed = [(333, bpj, 1000, 30, ['DA'], True, {}) for bpj in range(1, 12)] + \
                [(500, bpj, 100_000, None, None, False, {'ignore_mp': True}) for bpj in range(1, 8)]
        totals = {}
        for (bin_size, bpj, mf, mq, kt, dedup, kw) in fixed + combos[:260]:
            if bin_size * bpj < 300:
                path = bam_plain if mf else bam_b
            else:
                path = rng.choice([bam_a, bam_a, bam_b, bam_plain, bam_empty])
            res = run_all_jobs(path, bin_size, bpj, mf, mq, kt, dedup, kw)
            record('count', os.path.basename(path), bin_size, bpj, mf, mq, kt, dedup, sorted(kw.items()), res)
            if res[0] == 'ok':
                totals.setdefault((os.path.basename(path), bin_size, mf, mq, repr(kt), dedup,
                                   repr(sorted(kw.items()))), set()).add(res[3])
        record('totals', sorted(((k, sorted(v)) for k, v in totals.items()), key=repr))

        # ---- 4. alt spans, odd single commands and faults ----
        alt = {'chr2': ('chr1', 1000, 4500), 'chrX': ('chr1', 0, 10)}
        for bin_size, bpj in [(500, 1), (500, 3), (1000, 2), (333, 4)]:
            record('alt', bin_size, bpj, run_all_jobs(bam_a, bin_size, bpj, 1000, 30, ['DA'], True, {}, alt_spans=alt))
            record('head/skip', bin_size, bpj, run_all_jobs(bam_a, bin_size, bpj, 1000, 30, None, True, {},
                                                          head=3, skip_contigs=['chr1']))

        def single(path, bin_size, mf, contig, start, end, mq=30, alt_spans=None, kt=None, dedup=True, kw=None):
            kw = {} if kw is None else kw
            res = outcome(bbc.count_fragments_binned,
                          (path, bin_size, mf, contig, start, end, mq, alt_spans, kt, dedup, kw))
            if res[0] == 'ok':
                res = ('ok', [(k, list(v.items())) for k, v in res[1].items()])
            record('single', os.path.basename(str(path)), bin_size, mf, contig, start, end, mq, kt, dedup, res)

        for (start, end) in [(0, 0), (0, 1), (999, 1000), (1000, 1000), (1000, 999), (0, 10_000), (0, 20_000),
                             (9_999, 10_000), (10_000, 11_000), (333, 777), (-500, 500), (2_000, 2_001)]:
            for mf in (0, 1000):
                single(bam_a, 500, mf, 'chr1', start, end)
                single(bam_a, 333, mf, 'chr2', start, end, kt=['DA'])
        single(bam_a, 500, 1000, 'chrE', 0, 500)
        single(bam_a, 500, 1000, 'chr3', 0, 500)
        single(bam_a, 1, 10, 'chr3', 0, 1)
        single(bam_a, 500, 1000, 'nope', 0, 500)            # unknown contig
        single(bam_a, 0, 1000, 'chr1', 0, 500)              # zero bin size
        single(bam_a, 0, 1000, 'chrE', 0, 500)              # zero bin size, no reads
        single(bam_a, 2.5, 1000, 'chr1', 0, 500)            # float bin size
        single(bam_a, 0.1, 1000, 'chr1', 0, 50)             # float bin size
        single(bam_a, 500, 1000, 'chr1', 0, 500, kw=None, mq='x')  # bad mapq type
        single(bam_a, 500, 1000, 'chr1', 0, 500, mq=None)
        single(os.path.join(tmp, 'missing.bam'), 500, 1000, 'chr1', 0, 500)
        single(bam_noindex, 500, 1000, 'chr1', 0, 500)
        single(bam_nocontig, 500, 1000, 'chr1', 0, 500)
        record('bad-args', outcome(bbc.count_fragments_binned, (bam_a, 500)))
        record('bad-kwargs', outcome(bbc.count_fragments_binned,
                                     (bam_a, 500, 1000, 'chr1', 0, 500, 30, None, None, True, None)))
        # non-numeric DS tag
        bam_badds = os.path.join(tmp, 'badds.bam')
        with pysam.AlignmentFile(bam_badds, 'wb', header=header) as out:
            out.write(make_read(header, 'ok', 'chr1', 100, 65, 60, [('DS', 120), ('SM', 'c')]))
            out.write(make_read(header, 'bad', 'chr1', 200, 65, 60, [('DS', 'abc'), ('SM', 'c')]))
            out.write(make_read(header, 'float', 'chr1', 300, 65, 60, [('DS', 320.7), ('SM', 'c')]))
            out.write(make_read(header, 'arr', 'chr1', 400, 65, 60, [('DS', 410), ('DA', [1, 2, 3])]))
        pysam.index(bam_badds)
        single(bam_badds, 500, 1000, 'chr1', 0, 150)
        single(bam_badds, 500, 1000, 'chr1', 0, 250)
        single(bam_badds, 100, 0, 'chr1', 300, 400)
        single(bam_badds, 100, 0, 'chr1', 400, 500)
        single(bam_badds, 100, 0, 'chr1', 400, 500, kt=['DA'])   # unhashable tag value

        # ---- 5. obtain_counts: merge over worker schedules ----
        for threads, bpj, show_progress, paths in [
                (1, 1, False, bam_a), (2, 1, True, bam_a), (3, 2, False, bam_a), (4, 7, True, bam_a),
                (2, 3, False, bam_b), (3, 50, True, bam_b), (2, 2, True, bam_empty), (2, 2, True, bam_nocontig),
                (1, 2, True, [bam_a, bam_b]), (1, 5, False, [bam_b, bam_a, bam_plain])]:
            commands = bbc.generate_commands(paths, bin_size=500, bins_per_job=bpj, min_mq=30,
                                             max_fragment_size=1000, key_tags=['DA'], kwargs={})
            buf = io.StringIO()
            with contextlib.redirect_stdout(buf):
                res = outcome(bbc.obtain_counts, commands, None, live_update=False, threads=threads,
                              show_progress=show_progress)
            if res[0] == 'ok':
                counts = res[1]
                assert type(counts) is dict
                res = ('ok', sorted(((k, type(v).__name__, sorted(v.items(), key=repr))
                                     for k, v in counts.items()), key=repr))
            record('obtain', threads, bpj, show_progress,
                   [os.path.basename(p) for p in paths] if isinstance(paths, list) else os.path.basename(paths),
                   res, buf.getvalue())
        # a failing job inside the pool
        buf = io.StringIO()
        with contextlib.redirect_stdout(buf):
            res = outcome(bbc.obtain_counts, [(bam_a, 500, 1000, 'nope', 0, 500, 30, None, None, True, {})],
                          None, live_update=False, threads=2, show_progress=True)
        record('obtain-fault', res[:2], buf.getvalue())
        # custom count function / default arguments
        buf = io.StringIO()
        with contextlib.redirect_stdout(buf):
            res = outcome(bbc.obtain_counts, iter([1, 2, 3, 2, 1]), None, live_update=False, threads=1,
                          count_function=fake_count, show_progress=True)
        record('obtain-custom', res, buf.getvalue())

        # ---- 6. read_counts ----
        for r1, qc, dup, mp, mapq in itertools.product([True, False], [True, False], [True, False],
                                                       [None, 'unique', 'multi'], [0, 30, 60]):
            read = FakeRead(r1, qc, dup, mp, mapq)
            for min_mq, dedup, read1_only, ignore_mp, ignore_qcfail in [
                    (30, True, True, False, False), (None, False, False, True, True), (60, True, False, False, True),
                    (0, False, True, True, False), (31, True, True, False, False)]:
                buf = io.StringIO()
                with contextlib.redirect_stdout(buf):
                    a = bbc.read_counts(read, min_mq, dedup=dedup, read1_only=read1_only, ignore_mp=ignore_mp,
                                        ignore_qcfail=ignore_qcfail, verbose=True)
                b = bbc.read_counts(read, min_mq, dedup=dedup, read1_only=read1_only, ignore_mp=ignore_mp,
                                    ignore_qcfail=ignore_qcfail)
                record('read_counts', r1, qc, dup, mp, mapq, min_mq, dedup, read1_only, ignore_mp, ignore_qcfail,
                       a, b, buf.getvalue())
        record('read_counts-none', outcome(bbc.read_counts, None, 30, read1_only=True))

    print(f'records: {N_RECORDS}')
    print(H.hexdigest())


def fake_count(x):
    # jobs which report overlapping bins: later results overwrite samples of earlier ones
    return {('c', 0, x): {'s': x, f's{x}': 1}, ('c', x, x + 1): {'t': x}}


if __name__ == '__main__':
    main()
