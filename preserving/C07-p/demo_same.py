#!/usr/bin/env python
# Differential script for the MoleculeIterator buffer ejection code.
# Builds coordinate sorted fragment streams, runs the MoleculeIterator over them for
# many ejection schedules / cache sizes / pooling methods and prints a sha256 digest
# over everything observable (molecule order, grouping, counters between yields, errors).
import hashlib
import os
import random
import sys
import tempfile

import pysam

HERE = os.path.dirname(os.path.abspath(__file__))
sys.path.insert(0, HERE)

from singlecellmultiomics.molecule import Molecule, MoleculeIterator, NlaIIIMolecule  # noqa
from singlecellmultiomics.fragment import Fragment, NlaIIIFragment  # noqa

DIGEST = hashlib.sha256()
N_RUNS = 0


def emit(*parts):
    DIGEST.update(('\t'.join(str(p) for p in parts) + '\n').encode())


CONTIGS = ['chr1', 'chr2', 'chr3']
HEADER = pysam.AlignmentHeader.from_dict({
    'HD': {'VN': '1.0', 'SO': 'coordinate'},
    'SQ': [{'SN': c, 'LN': 10_000_000} for c in CONTIGS]})


def make_read(name, contig, start, length, sample, umi, reverse=False, mapq=60, unmapped=False):
    read = pysam.AlignedSegment(HEADER)
    read.query_name = name
    read.query_sequence = ('CATG' + 'ACGT' * (length // 4 + 1))[:length]
    read.query_qualities = pysam.qualitystring_to_array('I' * length)
    flag = 0
    if reverse:
        flag |= 16
    if unmapped:
        flag |= 4
        read.flag = flag
    else:
        read.flag = flag
        read.reference_id = CONTIGS.index(contig)
        read.reference_start = start
        read.cigarstring = f'{length}M'
    read.mapping_quality = mapq
    read.set_tag('SM', sample)
    read.set_tag('RX', umi)
    return read


def build_reads(spec, wrap='pair'):
    """spec: list of dicts -> list of entries for the MoleculeIterator"""
    out = []
    for i, s in enumerate(spec):
        read = make_read(f'q{i}', s['contig'], s['start'], s['length'], s['sample'], s['umi'],
                         reverse=s.get('reverse', False), mapq=s.get('mapq', 60),
                         unmapped=s.get('unmapped', False))
        mode = wrap if wrap != 'mixed' else ('pair', 'single', 'bare', 'tuple')[i % 4]
        if mode == 'pair':
            out.append((read, None))
        elif mode == 'single':
            out.append([read])
        elif mode == 'tuple':
            out.append((read,))
        else:
            out.append(read)
    return out


def random_spec(rng, n, n_cells=3, n_umis=3, step=400, long_every=0, contigs=1,
                dup_rate=0.4, max_len=120, unmapped_rate=0.0, reverse_rate=0.0, lowq_rate=0.0):
    spec = []
    per_contig = max(1, n // contigs)
    for ci in range(contigs):
        pos = rng.randint(1000, 3000)
        history = []
        for k in range(per_contig):
            if history and rng.random() < dup_rate:
                # a duplicate of a previous fragment: identical start, cell and umi
                proto = dict(rng.choice(history))
                proto['length'] = rng.choice([proto['length'], rng.randint(20, max_len)])
                # keep the stream coordinate sorted on start
                proto['start'] = max(proto['start'], pos) if rng.random() < 0.3 else proto['start']
                if proto['start'] < pos:
                    proto['start'] = pos
                spec.append(proto)
                continue
            pos += rng.choice([0, 0, 1, rng.randint(1, step), rng.randint(step, 4 * step)])
            length = rng.randint(20, max_len)
            if long_every and k % long_every == long_every - 1:
                length = rng.randint(2_000, 9_000)
            s = {'contig': CONTIGS[ci], 'start': pos, 'length': length,
                 'sample': f'CELL_{rng.randint(1, n_cells)}',
                 'umi': rng.choice(['AAA', 'CAT', 'GGC', 'TTA', 'ACG'][:n_umis]),
                 'reverse': rng.random() < reverse_rate,
                 'mapq': 3 if rng.random() < lowq_rate else 60,
                 'unmapped': rng.random() < unmapped_rate}
            history.append(s)
            spec.append(s)
    return spec


def describe(molecule):
    frags = []
    for fragment in molecule:
        names = tuple(r.query_name if r is not None else None for r in fragment.reads)
        frags.append((names, fragment.is_duplicate() if hasattr(fragment, 'is_duplicate') else None))
    reason = None
    try:
        reason = molecule.get_rejection_reason() if hasattr(molecule, 'get_rejection_reason') else None
    except Exception as e:  # pragma: no cover
        reason = type(e).__name__
    return (type(molecule).__name__, molecule.sample, molecule.umi, molecule.chromosome,
            molecule.spanStart, molecule.spanEnd, molecule.strand, len(molecule),
            getattr(molecule, 'finalised', None), getattr(molecule, 'overflow_fragments', None),
            reason, tuple(frags))


def state(it):
    try:
        cache = it.get_molecule_cache_size()
    except Exception as e:
        cache = type(e).__name__
    return (it.waiting_fragments, it.yielded_fragments, it.deleted_fragments,
            it.check_ejection_iter, cache)


def bucket_view(it):
    if it.pooling_method == 0:
        return tuple(len(m) for m in it.molecules)
    return tuple((str(k), tuple(len(m) for m in v)) for k, v in it.molecules_per_cell.items())


def run(label, entries, stop_after=None, reiterate=False, with_repr=False, **kwargs):
    """Run the iterator, digest everything which can be observed"""
    global N_RUNS
    N_RUNS += 1
    emit('RUN', label, sorted((k, str(v)) for k, v in kwargs.items() if k not in (
        'molecule_class', 'fragment_class', 'progress_callback_function')))
    try:
        it = MoleculeIterator(entries, **kwargs)
    except Exception as e:
        emit('INIT-ERROR', type(e).__name__, str(e))
        return None
    partition = []
    for round_ in range(2 if reiterate else 1):
        n = 0
        try:
            for molecule in it:
                d = describe(molecule)
                emit('MOL', n, d, state(it), bucket_view(it))
                if with_repr:
                    emit('REPR', repr(it).replace(str(it.matePairIterator), '<src>'))
                partition.append(tuple(sorted(d[-1], key=repr)))
                n += 1
                if stop_after is not None and n >= stop_after:
                    break
            emit('END', round_, n, state(it), bucket_view(it))
        except Exception as e:
            emit('ERROR', round_, n, type(e).__name__, str(e), state(it), bucket_view(it))
    emit("PARTITION", sorted(partition, key=repr))
    return sorted(partition, key=repr)


class FaultyMolecule(Molecule):
    """can_be_yielded raises on the n-th call"""
    calls = 0
    fail_at = None

    def can_be_yielded(self, chromosome, position):
        FaultyMolecule.calls += 1
        if FaultyMolecule.fail_at is not None and FaultyMolecule.calls == FaultyMolecule.fail_at:
            raise IOError('planted fault in can_be_yielded')
        return Molecule.can_be_yielded(self, chromosome, position)


class CellFragment(Fragment):
    """Fragment which is pooled by cell and strand"""

    def __init__(self, reads, **kwargs):
        Fragment.__init__(self, reads, **kwargs)
        self.match_hash = (self.sample, self.strand)


FRAGMENT_FLAVOURS = {
    'plain': (Fragment, Molecule, {'umi_hamming_distance': 0, 'assignment_radius': 0}),
    'plain_r5': (Fragment, Molecule, {'umi_hamming_distance': 0, 'assignment_radius': 5}),
    'cell': (CellFragment, Molecule, {'umi_hamming_distance': 0, 'assignment_radius': 0}),
    'cell_hd1': (CellFragment, Molecule, {'umi_hamming_distance': 1, 'assignment_radius': 50}),
    'nla': (NlaIIIFragment, NlaIIIMolecule, {'umi_hamming_distance': 0, 'check_motif': False,
                                              'R1_primer_length': 0, 'R2_primer_length': 0}),
}


def flavour_args(flavour, cache_size=None, **mol_args):
    fc, mc, fargs = FRAGMENT_FLAVOURS[flavour]
    margs = dict(mol_args)
    if cache_size is not None:
        margs['cache_size'] = cache_size
    return dict(fragment_class=fc, molecule_class=mc, fragment_class_args=dict(fargs),
                molecule_class_args=margs, perform_qflag=False)


def section_exhaustive_schedules(rng):
    """Small inputs: every ejection interval 0..n and None, both pooling methods, several cache sizes"""
    mismatches = 0
    for case in range(14):
        n = rng.randint(0, 12)
        spec = random_spec(rng, n, n_cells=rng.randint(1, 3), n_umis=rng.randint(1, 3),
                           step=rng.choice([30, 300, 3000]), long_every=rng.choice([0, 0, 4]),
                           contigs=rng.choice([1, 1, 2]), max_len=rng.choice([40, 150]))
        for flavour in ('plain', 'cell', 'nla'):
            for cache_size in (10_000, 1_000):
                reference = None
                for pooling in (0, 1):
                    for every in list(range(0, len(spec) + 2)) + [None]:
                        part = run(f'exh{case}', build_reads(spec), check_eject_every=every,
                                   pooling_method=pooling, **flavour_args(flavour, cache_size))
                        long_present = any(s['length'] >= cache_size / 2 for s in spec)
                        if not long_present:
                            if reference is None:
                                reference = part
                            elif reference != part:
                                mismatches += 1
    emit('EXHAUSTIVE-MISMATCHES', mismatches)


def section_random_streams(rng):
    for case in range(60):
        n = rng.choice([0, 1, 2, 15, 40, 90])
        spec = random_spec(rng, n, n_cells=rng.randint(1, 5), n_umis=rng.randint(1, 5),
                           step=rng.choice([10, 200, 2500, 20_000]),
                           long_every=rng.choice([0, 0, 5, 9]), contigs=rng.randint(1, 3),
                           dup_rate=rng.choice([0.0, 0.3, 0.6]),
                           unmapped_rate=rng.choice([0, 0, 0.1]),
                           reverse_rate=rng.choice([0, 0.3]), lowq_rate=rng.choice([0, 0.15]))
        flavour = rng.choice(sorted(FRAGMENT_FLAVOURS))
        cache_size = rng.choice([0, 1, 100, 1_000, 10_000, 100_000])
        wrap = rng.choice(['pair', 'single', 'mixed', 'tuple'])
        for pooling in (0, 1):
            for every in (0, 1, 2, 7, 50, None):
                run(f'rnd{case}', build_reads(spec, wrap), check_eject_every=every,
                    pooling_method=pooling, with_repr=(case % 7 == 0),
                    **flavour_args(flavour, cache_size))


def section_boundaries():
    """Fragments exactly at, one below and one above the cache_size/2 margin"""
    for cache_size in (0, 1, 2, 100, 101, 1000):
        half = cache_size * 0.5
        for delta in (-2, -1, 0, 1, 2):
            for length in (10, 30):
                # first molecule spans 5000..5000+length; the probe fragment ends at position p
                end_of_first = 5000 + length
                probe_end = int(end_of_first + half) + delta
                probe_len = 8
                probe_start = probe_end - probe_len
                if probe_start < 5000:
                    probe_start = 5000
                spec = [
                    {'contig': 'chr1', 'start': 5000, 'length': length, 'sample': 'CELL_1', 'umi': 'AAA'},
                    {'contig': 'chr1', 'start': probe_start, 'length': probe_len, 'sample': 'CELL_2', 'umi': 'CAT'},
                    {'contig': 'chr1', 'start': probe_start, 'length': length, 'sample': 'CELL_1', 'umi': 'AAA'},
                    {'contig': 'chr1', 'start': probe_start + 1, 'length': probe_len, 'sample': 'CELL_1', 'umi': 'AAA'},
                    {'contig': 'chr2', 'start': 10, 'length': probe_len, 'sample': 'CELL_1', 'umi': 'AAA'},
                ]
                for pooling in (0, 1):
                    for every in (0, 1, None):
                        for flavour in ('plain_r5', 'cell'):
                            run(f'bnd{cache_size}_{delta}', build_reads(spec), check_eject_every=every,
                                pooling_method=pooling, **flavour_args(flavour, cache_size))


def section_options_and_faults(rng):
    spec = random_spec(rng, 50, n_cells=3, n_umis=2, step=900, long_every=6, contigs=2,
                       dup_rate=0.5, unmapped_rate=0.08, lowq_rate=0.1)
    for pooling in (0, 1, 2, None):
        for every in (0, 3, None):
            base = dict(check_eject_every=every, pooling_method=pooling)
            # overflow handling
            for yield_overflow in (True, False):
                run('overflow', build_reads(spec), yield_overflow=yield_overflow, **base,
                    **flavour_args('cell', 1000, max_associated_fragments=2))
            # invalid fragments, no deduplication
            run('invalid', build_reads(spec), yield_invalid=True, **base, **flavour_args('cell', 1000))
            run('everyfrag', build_reads(spec), every_fragment_as_molecule=True, **base,
                **flavour_args('plain', 1000))
            # buffer limit
            for limit in (0, 1, 5, 1000):
                run('buflimit', build_reads(spec), max_buffer_size=limit, **base, **flavour_args('cell', 500))
            # read filters
            run('skip', build_reads(spec), skip_contigs={'chr2'}, **base, **flavour_args('cell', 1000))
            run('skipbare', build_reads(spec, 'bare'), skip_contigs={'chr2'}, **base, **flavour_args('cell', 1000))
            run('minmq', build_reads(spec), min_mapping_qual=20, **base, **flavour_args('nla', 1000))
            # consumer stops early and iterates again
            run('partial', build_reads(spec), stop_after=3, reiterate=True, **base, **flavour_args('cell', 300))
            # allele clustering switch (plain molecules can not be split)
            run('allele', build_reads(spec), perform_allele_clustering=True, **base,
                **flavour_args('nla', 1000))
            # progress callback looking at the iterator
            seen = []
            run('progress', build_reads(spec), **base, **flavour_args('cell', 200),
                progress_callback_function=lambda i, it, reads: seen.append((i, state(it))))
            emit('PROGRESS', seen)
    # bad entries in the source
    for bad in ([], [()], [(None, None, None)], [5], ['ab']):
        run('badentry', build_reads(spec[:4]) + bad + build_reads(spec[4:8]), check_eject_every=1,
            **flavour_args('plain', 1000))
    # faults inside the ejection scan
    for pooling in (0, 1):
        for fail_at in (1, 2, 5, 11, 30, 10_000):
            for every in (0, 2):
                FaultyMolecule.calls = 0
                FaultyMolecule.fail_at = fail_at
                args = flavour_args('cell', 300)
                args['molecule_class'] = FaultyMolecule
                run(f'fault{fail_at}', build_reads(spec), check_eject_every=every, pooling_method=pooling,
                    reiterate=True, **args)
    FaultyMolecule.fail_at = None


def section_can_be_yielded():
    """Direct calls of Molecule.can_be_yielded including ties and undefined spans"""
    for cache_size in (0, 1, 3, 10, 10_000, 2.5):
        spec = [{'contig': 'chr2', 'start': 700, 'length': 25, 'sample': 'CELL_1', 'umi': 'AAA'}]
        (read, _), = build_reads(spec)
        molecule = Molecule(Fragment([read, None]), cache_size=cache_size)
        for chrom in (None, 'chr1', 'chr2'):
            for position in list(range(690 - 12, 740 + 12)) + [0, -1, 699.5, 10 ** 9, -6000, 6000]:
                emit('CBY', cache_size, chrom, position, molecule.can_be_yielded(chrom, position))
    empty = Molecule(cache_size=10)
    for chrom, position in ((None, 5), ('chr1', 5), (empty.chromosome, 5)):
        try:
            emit('CBY-empty', chrom, empty.can_be_yielded(chrom, position))
        except Exception as e:
            emit('CBY-empty', chrom, type(e).__name__)
    for bad_cache in (None, 'x'):
        (read, _), = build_reads([{'contig': 'chr2', 'start': 700, 'length': 25, 'sample': 'C', 'umi': 'A'}])
        molecule = Molecule(Fragment([read, None]), cache_size=bad_cache)
        for position in (0, 700, 10 ** 6):
            try:
                emit('CBY-bad', bad_cache, molecule.can_be_yielded('chr2', position))
            except Exception as e:
                emit('CBY-bad', bad_cache, type(e).__name__)


def section_bam_files(tmpdir):
    """Alignment files: the bundled test data and a freshly written sorted bam"""
    rng = random.Random(77)
    spec = random_spec(rng, 120, n_cells=4, n_umis=3, step=600, long_every=8, contigs=3, dup_rate=0.5)
    spec.sort(key=lambda s: (CONTIGS.index(s['contig']), s['start']))
    path = os.path.join(tmpdir, 'synthetic.bam')
    with pysam.AlignmentFile(path, 'wb', header=HEADER) as out:
        for entry in build_reads(spec, 'bare'):
            out.write(entry)
    pysam.index(path)
    for pooling in (0, 1):
        for every in (0, 5, 10_000, None):
            with pysam.AlignmentFile(path) as f:
                run('synthbam', f, check_eject_every=every, pooling_method=pooling,
                    **flavour_args('nla', 1000))
            with pysam.AlignmentFile(path) as f:
                run('synthbam-region', f, check_eject_every=every, pooling_method=pooling,
                    contig='chr2', **flavour_args('cell', 1000))
    nla = os.path.join(HERE, 'data', 'mini_nla_test.bam')
    if os.path.exists(nla):
        for pooling in (0, 1):
            for every in (0, 10, 10_000, None):
                for hd in (0, 1):
                    with pysam.AlignmentFile(nla) as f:
                        run('mini_nla', f, check_eject_every=every, pooling_method=pooling,
                            molecule_class=NlaIIIMolecule, fragment_class=NlaIIIFragment,
                            fragment_class_args={'umi_hamming_distance': hd}, yield_invalid=(hd == 0),
                            with_repr=(every == 10))
    else:
        emit('mini_nla missing')


def main():
    rng = random.Random(20260928)
    with tempfile.TemporaryDirectory() as tmpdir:
        section_can_be_yielded()
        section_boundaries()
        section_exhaustive_schedules(rng)
        section_random_streams(rng)
        section_options_and_faults(rng)
        section_bam_files(tmpdir)
    print(f'runs: {N_RUNS}')
    print(DIGEST.hexdigest())


if __name__ == '__main__':
    main()
