#!/usr/bin/env python3
"""Differential script for the demultiplexing strategies (property C02).

Builds random read pairs for every strategy of the loader (and for a set of
hand-made UmiBarcodeDemuxMethod / ScatteredUmiBarcodeDemuxMethod layouts),
demultiplexes them and prints a sha256 digest over everything observable:
tags (in order), sequence, qualities, plus line, the fastq rendering, or the
type and message of the exception raised.
"""
import gzip
import hashlib
import os
import random
import tempfile
import pkg_resources

from singlecellmultiomics.fastqProcessing.fastqIterator import FastqRecord, FastqIterator
from singlecellmultiomics.barcodeFileParser.barcodeFileParser import BarcodeParser
from singlecellmultiomics.modularDemultiplexer.demultiplexingStrategyLoader import DemultiplexingStrategyLoader
from singlecellmultiomics.modularDemultiplexer.baseDemultiplexMethods import (
    UmiBarcodeDemuxMethod, ScatteredUmiBarcodeDemuxMethod, IlluminaBaseDemultiplexer)

rng = random.Random(20260928)
digest = hashlib.sha256()
n_cases = 0
n_accepted = 0
n_errors = {}


def emit(*parts):
    for p in parts:
        digest.update(repr(p).encode())
        digest.update(b'\x00')


def rand_seq(n, p_n=0.05):
    return ''.join('N' if rng.random() < p_n else rng.choice('ACGT') for _ in range(n))


def rand_qual(n):
    return ''.join(chr(33 + rng.randint(0, 51)) for _ in range(n))


HEADERS = [
    '@NS500414:628:H7YVNBGXC:{lane}:11101:{x}:{y} {mate}:N:0:GTGAAA',
    '@NS500414:628:H7YVNBGXC:{lane}:11101:{x}:{y} {mate}:N:0:ACAGTG',
    '@NS500414:628:H7YVNBGXC:{lane}:11101:{x}:{y} {mate}:N:0:12',
    '@NS500414:628:H7YVNBGXC:{lane}:11101:{x}:{y}',
    '@Cluster_s_{lane}_1101_{mate}',
    '@NS500414:628:H7YVNBGXC:{lane}:11101:{x}:{y} {mate}:N:0:TTTTTTTT',  # unknown index
]


def make_headers(style=None):
    h = HEADERS[style] if style is not None else rng.choice(HEADERS[:4])
    lane, x, y = rng.randint(1, 4), rng.randint(1000, 30000), rng.randint(1000, 30000)
    return [h.format(lane=lane, x=x, y=y, mate=m) for m in (1, 2)]


def render(result):
    """Everything observable of a demultiplex result"""
    out = []
    if not isinstance(result, (list, tuple)):
        result = [result]
        out.append('not-a-list')
    for r in result:
        if isinstance(r, str):
            out.append(('str', r))
            continue
        out.append(tuple((k, repr(v)) for k, v in r.tags.items()))
        out.append((getattr(r, 'sequence', None), getattr(r, 'qualities', None), getattr(r, 'plus', None)))
        try:
            out.append(r.asFastq())
        except Exception as e:  # header too long etc
            out.append((type(e).__name__, str(e)))
    return out


def run(name, strategy, records, **kwargs):
    global n_cases, n_accepted
    n_cases += 1
    before = [tuple(r) for r in records]
    try:
        res = strategy.demultiplex(records, **kwargs)
        n_accepted += 1
        emit(name, sorted(kwargs.items()), 'OK', render(res))
    except Exception as e:
        n_errors[type(e).__name__] = n_errors.get(type(e).__name__, 0) + 1
        emit(name, sorted(kwargs.items()), 'EXC', type(e).__name__, str(e))
    # the input must not have been touched
    emit([tuple(r) for r in records] == before)


# --------------------------------------------------------------------------
# layout aware read construction
# --------------------------------------------------------------------------
def layout_of(strategy):
    """Return the (sub)strategies which prescribe a read layout"""
    subs = []
    for attr in ('chic_demux', 'transcriptome_demux', 'damid_demux'):
        if hasattr(strategy, attr):
            subs.append(getattr(strategy, attr))
    if isinstance(strategy, ScatteredUmiBarcodeDemuxMethod) and hasattr(strategy, 'barcode_slices'):
        subs.insert(0, strategy)
    elif isinstance(strategy, UmiBarcodeDemuxMethod) and hasattr(strategy, 'barcodeStart'):
        subs.insert(0, strategy)
    return subs


def known_barcodes(parser, alias):
    try:
        mapping = parser[alias]
    except Exception:
        mapping = None
    if not mapping:
        return []
    return sorted(mapping.keys())


def plant(layout, parser, seqs, barcode=None):
    """Write a barcode at the positions the layout prescribes. seqs: list of list of chars"""
    if barcode is None:
        options = known_barcodes(parser, layout.barcodeFileAlias)
        if not options:
            return None
        barcode = rng.choice(options)
    if isinstance(layout, ScatteredUmiBarcodeDemuxMethod):
        i = 0
        for mate, slices in enumerate(layout.barcode_slices):
            for sl in slices:
                for pos in range(sl.start, sl.stop):
                    if mate < len(seqs) and pos < len(seqs[mate]) and i < len(barcode):
                        seqs[mate][pos] = barcode[i]
                    i += 1
    else:
        mate = layout.barcodeRead
        for i, base in enumerate(barcode):
            pos = layout.barcodeStart + i
            if mate < len(seqs) and pos < len(seqs[mate]):
                seqs[mate][pos] = base
    return barcode


def build_pair(layout, parser, insert_len, header_style=None, short_qual=False, miss=False, p_n=0.05,
               r1_extra=None):
    prefix = 0
    if isinstance(layout, ScatteredUmiBarcodeDemuxMethod):
        prefix = getattr(layout, 'total_mi_len', 14)
    elif layout is not None:
        prefix = max(layout.barcodeStart + layout.barcodeLength, layout.umiStart + layout.umiLength)
    lens = [prefix + insert_len, insert_len + rng.choice([0, 0, 6, 8, 12])]
    if layout is not None and not isinstance(layout, ScatteredUmiBarcodeDemuxMethod) and layout.barcodeRead == 1:
        lens = [insert_len + rng.choice([0, 4, 6]), prefix + insert_len]
    seqs = [list(rand_seq(n, p_n)) for n in lens]
    if r1_extra is not None and len(seqs[0]) > prefix:
        # plant a motif in the insert of read 1
        pos = prefix + rng.randint(0, max(0, len(seqs[0]) - prefix - 1))
        seqs[0][pos:pos + len(r1_extra)] = list(r1_extra)
    if layout is not None and not miss:
        plant(layout, parser, seqs)
    headers = make_headers(header_style)
    records = []
    for h, s in zip(headers, seqs):
        s = ''.join(s)
        q = rand_qual(len(s))
        if short_qual:
            q = q[:max(0, len(q) - rng.randint(1, len(q) + 1))] if q else q
        records.append(FastqRecord(h, s, rng.choice(['+', '+', '+' + h[1:]]), q))
    return records


INSERT_LENGTHS = [0, 0, 1, 2, 3, 5, 6, 7, 11, 12, 13, 20, 35, 75, 149, 150]


def exercise(name, strategy, parser):
    layouts = layout_of(strategy) or [None]
    for round_ in range(26):
        layout = layouts[round_ % len(layouts)]
        insert_len = INSERT_LENGTHS[round_ % len(INSERT_LENGTHS)] if round_ < 16 else rng.randint(0, 150)
        motif = None
        if round_ % 5 == 3:
            motif = rng.choice(['AGACTCTTT', 'T' * 24, 'AGTCCGACGAT', 'CATG', 'TA', 'A' * 10, 'G' * 10])
        records = build_pair(layout, parser, insert_len, r1_extra=motif)
        run(name, strategy, records)
        if 'SINGLE_END' in name:
            run(name, strategy, records[:1])
            run(name, strategy, records[:1], probe=True)
        if round_ % 3 == 0:
            run(name, strategy, records, probe=True)
        if round_ % 4 == 1:
            run(name, strategy, records, library='LIB_%d' % round_, reason='why')
        if round_ % 6 == 2:
            run(name, strategy, records[:1])                       # single end
            run(name, strategy, records[::-1])                     # mates swapped
        if round_ % 7 == 3:
            run(name, strategy, tuple(records))                    # tuple instead of list
    # corner cases
    layout = layouts[0]
    run(name, strategy, [])
    run(name, strategy, build_pair(layout, parser, 30) + build_pair(layout, parser, 30)[:1])  # three records
    run(name, strategy, build_pair(layout, parser, 40, miss=True, p_n=0.0))                    # unknown barcode
    run(name, strategy, build_pair(layout, parser, 40, p_n=1.0))                               # all N insert
    run(name, strategy, build_pair(layout, parser, 25, short_qual=True))                       # qualities too short
    run(name, strategy, build_pair(layout, parser, 25, short_qual=True), probe=True)
    run(name, strategy, build_pair(layout, parser, 25, header_style=4))                        # 3dec header
    run(name, strategy, build_pair(layout, parser, 25, header_style=5))                        # unknown index
    run(name, strategy, build_pair(layout, parser, 25), library='L' * 200)                     # long header
    # reads which end inside the barcode / umi / ligation region
    full = build_pair(layout, parser, 10, p_n=0.0)
    for cut in (0, 1, 2, 3, 5, 8, 10, 11, 12, 13, 14, 15, 16, 17, 28, 29):
        cut_records = [FastqRecord(r.header, r.sequence[:cut], r.plus, r.qual[:cut]) for r in full]
        run(name, strategy, cut_records)
        if cut in (3, 11, 12, 13):
            run(name, strategy, cut_records, probe=True)
    # empty second mate
    run(name, strategy, [full[0], FastqRecord(full[1].header, '', '+', '')])


def main():
    barcode_folder = pkg_resources.resource_filename('singlecellmultiomics', 'modularDemultiplexer/barcodes/')
    index_folder = pkg_resources.resource_filename('singlecellmultiomics', 'modularDemultiplexer/indices/')
    parser = BarcodeParser(barcode_folder, lazyLoad='*', hammingDistanceExpansion=1)
    index_parser = BarcodeParser(index_folder, lazyLoad='*', hammingDistanceExpansion=1)

    # The 10x whitelist is not shipped in full, supply a few barcodes
    alias10x = '10x_3M-february-2018'
    parser.pending_files.pop(alias10x, None)
    for i in range(12):
        parser.addBarcode(alias10x, rand_seq(16, p_n=0.0), i + 1)

    # ---- every strategy of the loader, with and without an index parser
    for label, kwargs in (('noindex', dict()),
                          ('index', dict(indexParser=index_parser, indexFileAlias='illumina_merged_ThruPlex48S_RP'))):
        loader = DemultiplexingStrategyLoader(barcodeParser=parser, **kwargs)
        for strategy in loader.demultiplexingStrategies:
            emit(label, type(strategy).__name__, repr(strategy), strategy.getParserSummary())
            for attr in ('sequenceCapture', 'capture_slices', 'umi_slices', 'barcode_slices', 'random_primer_slice'):
                emit(attr, repr(getattr(strategy, attr, None)))
            exercise(f'{label}:{type(strategy).__name__}', strategy, parser)

    # ---- hand made contiguous layouts
    configs = [
        dict(umiRead=0, umiStart=0, umiLength=3, barcodeRead=0, barcodeStart=3, barcodeLength=8),
        dict(umiRead=0, umiStart=8, umiLength=5, barcodeRead=0, barcodeStart=0, barcodeLength=8),
        dict(umiRead=1, umiStart=0, umiLength=6, barcodeRead=1, barcodeStart=6, barcodeLength=8),
        dict(umiRead=0, umiStart=0, umiLength=0, barcodeRead=0, barcodeStart=0, barcodeLength=8),
        dict(umiRead=0, umiStart=0, umiLength=0, barcodeRead=1, barcodeStart=0, barcodeLength=8),
        dict(umiRead=0, umiStart=0, umiLength=0, barcodeRead=0, barcodeStart=2, barcodeLength=8),   # not implemented
        dict(umiRead=0, umiStart=0, umiLength=3, barcodeRead=1, barcodeStart=3, barcodeLength=8),   # not implemented
        dict(umiRead=0, umiStart=2, umiLength=3, barcodeRead=0, barcodeStart=5, barcodeLength=8),   # not implemented
    ]
    primers = [
        dict(random_primer_read=None),
        dict(random_primer_read=1, random_primer_length=6, random_primer_end=False),
        dict(random_primer_read=1, random_primer_length=6, random_primer_end=True),
        dict(random_primer_read=0, random_primer_length=4, random_primer_end=False),
        dict(random_primer_read=0, random_primer_length=4, random_primer_end=True),
        dict(random_primer_read=1, random_primer_length=0, random_primer_end=True),
        dict(random_primer_read=1, random_primer_length=0, random_primer_end=False),
        dict(random_primer_read=1, random_primer_length=None, random_primer_end=False),
        dict(random_primer_read=1, random_primer_length=None, random_primer_end=True),
        dict(random_primer_read=1, random_primer_length=200, random_primer_end=True),
    ]
    for ci, config in enumerate(configs):
        for pi, primer in enumerate(primers):
            name = f'custom:{ci}:{pi}'
            try:
                demux = UmiBarcodeDemuxMethod(barcodeFileParser=parser, barcodeFileAlias='maya_384NLA',
                                              indexFileParser=index_parser if (ci + pi) % 2 else None,
                                              **config, **primer)
            except Exception as e:
                emit(name, 'INIT-EXC', type(e).__name__, str(e))
                continue
            demux.shortName = f'CU{ci}{pi}'
            emit(name, repr(demux), repr(demux.sequenceCapture), repr(getattr(demux, 'random_primer_slice', None)))
            for insert_len in (0, 1, 3, 4, 5, 6, 7, 12, 40, 150, rng.randint(0, 150)):
                records = build_pair(demux, parser, insert_len)
                run(name, demux, records)
            run(name, demux, build_pair(demux, parser, 30)[:1])
            run(name, demux, build_pair(demux, parser, 30, short_qual=True))
            run(name, demux, build_pair(demux, parser, 30, miss=True, p_n=0.0))
            run(name, demux, [])

    # ---- hand made scattered layouts
    scattered = [
        dict(barcode_slices=((slice(3, 7), slice(10, 14)), ()), umi_slices=((slice(0, 3), slice(7, 10)), ()),
             capture_slices=(slice(14, None), slice(None))),
        dict(barcode_slices=((slice(0, 4),), (slice(0, 4),)), umi_slices=((slice(4, 6),), (slice(4, 8),)),
             capture_slices=(slice(6, None), slice(8, None))),
        dict(barcode_slices=((slice(0, 8),), ()), umi_slices=((), ()),
             capture_slices=(slice(8, None), slice(None, -2))),
        dict(barcode_slices=((), (slice(2, 10),)), umi_slices=((slice(0, 4),), (slice(0, 2),)),
             capture_slices=(slice(4, None), slice(10, None))),
        dict(barcode_slices=((slice(0, 8),), ()), umi_slices=((slice(8, 11),), ()),
             capture_slices=(slice(11, None), slice(None)), random_primer_read=1),   # attribute error path
        dict(barcode_slices=((slice(0, 8),), ()), umi_slices=None, capture_slices=None),
    ]
    for si, config in enumerate(scattered):
        name = f'scattered:{si}'
        demux = ScatteredUmiBarcodeDemuxMethod(barcodeFileParser=parser, barcodeFileAlias='maya_384NLA',
                                               indexFileParser=index_parser if si % 2 else None, **config)
        demux.shortName = f'SC{si}'
        for insert_len in (0, 1, 2, 3, 7, 8, 9, 30, 150, rng.randint(0, 150), rng.randint(0, 150)):
            prefix = 14
            seqs = [list(rand_seq(prefix + insert_len)), list(rand_seq(10 + insert_len))]
            plant(demux, parser, seqs)
            headers = make_headers()
            records = [FastqRecord(h, ''.join(s), '+', rand_qual(len(s))) for h, s in zip(headers, seqs)]
            run(name, demux, records)
            run(name, demux, records[:1])
            run(name, demux, records, library='lib')
        run(name, demux, [])
        run(name, demux, [FastqRecord(make_headers()[0], 'ACGT', '+', 'IIII')] * 3)

    # ---- through fastq files on disk
    with tempfile.TemporaryDirectory() as tmp:
        loader = DemultiplexingStrategyLoader(barcodeParser=parser, indexParser=index_parser,
                                              indexFileAlias='illumina_merged_ThruPlex48S_RP')
        for strategy in loader.demultiplexingStrategies:
            layouts = layout_of(strategy)
            if not layouts:
                continue
            paths = [os.path.join(tmp, f'{strategy.shortName}_R{m}.fastq.gz') for m in (1, 2)]
            handles = [gzip.open(p, 'wt') for p in paths]
            for i in range(12):
                records = build_pair(layouts[i % len(layouts)], parser, rng.randint(0, 150), header_style=0)
                for h, r in zip(handles, records):
                    h.write(f'{r.header}\n{r.sequence}\n+\n{r.qual}\n')
            for h in handles:
                h.close()
            out_path = os.path.join(tmp, f'{strategy.shortName}_out.fastq')
            with open(out_path, 'w') as out:
                for records in FastqIterator(*paths):
                    try:
                        for tr in strategy.demultiplex(records, library='disk'):
                            out.write(tr.asFastq())
                    except Exception as e:
                        out.write(f'{type(e).__name__}:{e}\n')
            with open(out_path) as f:
                emit('disk', strategy.shortName, f.read())

    print('cases', n_cases, 'accepted', n_accepted, 'exceptions', sorted(n_errors.items()))
    print(digest.hexdigest())


if __name__ == '__main__':
    main()
