#!/usr/bin/env python3
"""Differential script for the count table code (bamToCountTable / metaFromRead).

Builds synthetic tagged BAM files in a temporary directory, runs the count
table code over many option combinations, and prints a sha256 digest over all
observable results (tables, return values, exceptions, progress output except
the blacklist banner line) as its last line.
"""
import argparse
import collections
import contextlib
import hashlib
import io
import os
import random
import shutil
import sys
import tempfile

import pandas as pd
import pysam

import singlecellmultiomics.bamProcessing.bamToCountTable as ct
from singlecellmultiomics.modularDemultiplexer.baseDemultiplexMethods import metaFromRead
import singlecellmultiomics.modularDemultiplexer as md

DIGEST = hashlib.sha256()
N_RECORDS = [0]


TMPDIR = ['\0']
DUMP = open(os.environ['DEMO_DUMP'], 'w') if os.environ.get('DEMO_DUMP') else None


def emit(*parts):
    line = '\t'.join(str(p) for p in parts).replace(TMPDIR[0], '<TMP>')
    if DUMP is not None:
        DUMP.write(line.replace('\n', '\\n') + '\n')
    DIGEST.update(line.encode('utf-8', 'replace'))
    DIGEST.update(b'\n')
    N_RECORDS[0] += 1


HEADER = {
    'HD': {'VN': '1.6', 'SO': 'unsorted'},
    'SQ': [{'SN': 'chr1', 'LN': 10000},
           {'SN': 'chr2', 'LN': 5000},
           {'SN': 'chrUn_alt', 'LN': 3000}],
}
CONTIGS = ['chr1', 'chr2', 'chrUn_alt']
CIGARS = ['50M', '20M2I28M', '25M3D25M', '5S45M', '45M5S', '10S20M1I9M2D10M',
          '50M', '50M', '1M', '30M1000N20M']
XA_VALUES = ['chr2,+100,50M,0;', 'chrUn_alt,-5,50M,1;', '',
             'chrUn_alt,+5,50M,1;chr1,-77,50M,2;', 'chr1,+1,50M,0;chr2,+2,50M,0;chr2,+9,50M,3;',
             ';', 'chrUn_alt,+5,50M,1']
GENES = ['GeneA', 'GeneB', 'GeneA,GeneB', '', 'X', 'GeneC,,GeneD', 'None', 'A;B', '0']


def cigar_query_length(cigar):
    n = 0
    num = ''
    for c in cigar:
        if c.isdigit():
            num += c
        else:
            if c in 'MIS=X':
                n += int(num)
            num = ''
    return n


def random_read(rng, header, idx, with_faulty=False):
    r = pysam.AlignedSegment(header)
    r.query_name = f'read{idx:05d}'
    flag = 0
    paired = rng.random() < 0.7
    unmapped = rng.random() < 0.08
    if paired:
        flag |= 0x1
        if rng.random() < 0.6:
            flag |= 0x2
        if rng.random() < 0.2:
            flag |= 0x8
        flag |= 0x40 if rng.random() < 0.5 else 0x80
        if rng.random() < 0.5:
            flag |= 0x20
    if unmapped:
        flag |= 0x4
    if rng.random() < 0.5:
        flag |= 0x10
    if rng.random() < 0.06:
        flag |= 0x200
    if rng.random() < 0.15:
        flag |= 0x400
    if rng.random() < 0.04:
        flag |= 0x100
    if rng.random() < 0.03:
        flag |= 0x800
    r.flag = flag
    contig = rng.choice([0, 0, 0, 1, 1, 2])
    if unmapped and rng.random() < 0.5:
        r.reference_id = -1
        r.reference_start = -1
        cigar = None
    else:
        r.reference_id = contig
        length = HEADER['SQ'][contig]['LN']
        r.reference_start = rng.choice(
            [0, 1, 99, 100, 101, 149, 150, 199, 200, 999, 1000, 1001,
             rng.randrange(0, length - 1200), rng.randrange(0, length - 1200),
             length - 1100])
        cigar = None if unmapped else rng.choice(CIGARS)
        if with_faulty and rng.random() < 0.1:
            cigar = None
    r.mapping_quality = 0 if unmapped else rng.choice([0, 1, 19, 20, 21, 30, 60, 255])
    if cigar is not None:
        r.cigarstring = cigar
        qlen = cigar_query_length(cigar)
    else:
        qlen = 50
    r.query_sequence = ''.join(rng.choice('ACGT') for _ in range(qlen))
    r.query_qualities = pysam.qualitystring_to_array('I' * qlen)
    if paired:
        r.next_reference_id = r.reference_id
        r.next_reference_start = max(0, r.reference_start + rng.randrange(-100, 300)) \
            if r.reference_id >= 0 else -1
        r.template_length = rng.randrange(-400, 400)
    else:
        r.next_reference_id = -1
        r.next_reference_start = -1
    # tags
    if rng.random() < 0.92:
        r.set_tag('SM', rng.choice(['cellA', 'cellB', 'cellC', 'cell_D', '0', '']))
    if rng.random() < 0.3:
        r.set_tag('LY', rng.choice(['lib1', 'lib2']))
    if rng.random() < 0.85:
        r.set_tag('DS', rng.choice([0, 0, 1, 99, 100, 101, 499, 500, 999, 1000, 2500, 4999,
                                    5000, 9999, rng.randrange(0, 10000)]))
    if rng.random() < 0.6:
        r.set_tag('RC', rng.choice([0, 1, 2, 3]))
    if rng.random() < 0.12:
        r.set_tag('RR', rng.choice(['NN', 'MQ', '']))
    if rng.random() < 0.4:
        r.set_tag('NH', rng.choice([1, 1, 2, 3, 4, 10]))
    if rng.random() < 0.3:
        r.set_tag('XA', rng.choice(XA_VALUES))
    if rng.random() < 0.7:
        r.set_tag('mp', rng.choice(['unique', 'unique', 'unique', 'multi', '', 'Unique']))
    if rng.random() < 0.75:
        r.set_tag('NM', rng.choice([0, 0, 1, 2, 3, 5, 10]))
    if rng.random() < 0.8:
        r.set_tag('GN', rng.choice(GENES))
    if rng.random() < 0.5:
        r.set_tag('DA', rng.choice(['ref', 'alt', 'ref,alt', '']))
    if rng.random() < 0.6:
        r.set_tag('vv', rng.choice([0, 0, 1, 2, 7, -3]))
    if rng.random() < 0.3:
        r.set_tag('vf', rng.choice([0.0, 0.5, 1.25, -2.0]))
    if rng.random() < 0.3:
        r.set_tag('vs', rng.choice(['0', '3', '2.5', 'abc', '', 'nan', '1e3']))
    which = rng.random()
    if which < 0.3:
        r.set_tag('BI', rng.randrange(0, 5))
    elif which < 0.6:
        r.set_tag('bi', rng.randrange(0, 5))
    elif which < 0.7:
        r.set_tag('BI', 1)
        r.set_tag('bi', 2)
    if with_faulty:
        x = rng.random()
        if x < 0.05:
            r.set_tag('NH', 0)
        elif x < 0.1:
            r.set_tag('NH', 'two')
        elif x < 0.15:
            r.set_tag('XA', 7)
        elif x < 0.2:
            r.set_tag('NM', 'many')
        elif x < 0.25:
            r.set_tag('XA', 'chr1,+5,50M')
    return r


def write_bam(path, reads, sort=True, index=True):
    tmp = path + '.unsorted.bam'
    with pysam.AlignmentFile(tmp, 'wb', header=HEADER) as out:
        for r in reads:
            out.write(r)
    if sort:
        pysam.sort('-o', path, tmp)
        os.remove(tmp)
    else:
        os.rename(tmp, path)
    if index:
        pysam.index(path)


DEFAULTS = dict(
    alignmentfiles=[], o=None, featureTags=None, joinedFeatureTags=None,
    sampleTags='SM', head=None, bulk=False, r1only=False, r2only=False,
    splitFeatures=False, featureDelimiter=',', contig=None,
    divideMultimapping=False, doNotDivideFragments=False, sliding=None,
    keepOverBounds=False, bin=None, binTag='DS', byValue=None, blacklist=None,
    bedfile=None, proper_pairs_only=False, no_softclips=False,
    max_base_edits=None, no_indels=False, dedup=False, minMQ=0,
    filterMP=False, filterXA=False, noNames=False, showtags=False)


def make_args(**kw):
    d = dict(DEFAULTS)
    d.update(kw)
    return argparse.Namespace(**d)


def describe_df(df):
    buf = io.StringIO()
    df.to_csv(buf)
    return '|'.join([buf.getvalue(),
                     repr(list(df.dtypes.astype(str))),
                     repr(list(df.columns.names)),
                     repr(list(df.index.names)),
                     repr(df.shape)])


def filtered_stdout(text):
    keep = []
    skip_next_dict = False
    for line in text.splitlines():
        if line.startswith('Creating blacklist dictionary') or \
                line.startswith('Loading blacklisted regions'):
            continue
        keep.append(line)
    return '\n'.join(keep)


def run_table(label, args_kw, to_file=None):
    args = make_args(**args_kw)
    out = io.StringIO()
    result = None
    try:
        with contextlib.redirect_stdout(out):
            if to_file is None:
                df = ct.create_count_table(args, return_df=True)
                result = 'DF:' + describe_df(df)
            else:
                args.o = to_file
                ret = ct.create_count_table(args, return_df=False)
                if to_file.endswith('.pickle') or to_file.endswith('.pickle.gz'):
                    result = 'PICKLE:' + str(ret == to_file) + describe_df(pd.read_pickle(to_file))
                else:
                    with open(to_file) as h:
                        result = 'CSV:' + str(ret == to_file) + h.read()
    except SystemExit as e:
        result = 'EXIT:' + repr(e.code)
    except Exception as e:
        result = 'EXC:' + type(e).__name__ + ':' + str(e)
    emit('TABLE', label, sorted((k, repr(v)) for k, v in args_kw.items()
                                if k not in ('alignmentfiles', 'blacklist', 'bedfile')),
         result, filtered_stdout(out.getvalue()))
    return result


def table_repr(countTable):
    rows = []
    for sample, counter in countTable.items():
        for key, value in counter.items():
            rows.append((repr(sample), repr(key), repr(value)))
    # insertion order matters for the final table as well
    return repr(rows)


class FakeRead:
    """Minimal stand-in for reads which pysam cannot express"""

    def __init__(self, **kw):
        self.tags = kw.pop('tags', {})
        self.is_read1 = False
        self.is_read2 = False
        self.is_qcfail = False
        self.is_unmapped = False
        self.is_duplicate = False
        self.is_proper_pair = True
        self.is_paired = False
        self.mate_is_unmapped = False
        self.mapping_quality = 60
        self.cigarstring = '50M'
        self.reference_name = 'chr1'
        self.reference_start = 100
        self.reference_end = 150
        for k, v in kw.items():
            setattr(self, k, v)

    def has_tag(self, tag):
        return tag in self.tags

    def get_tag(self, tag):
        return self.tags[tag]


def unit_level(reads, rng, label):
    """Direct calls of read_should_be_counted / assignReads / metaFromRead"""
    blacklists = [None, {}, {'chr1': [(100, 200)]},
                  {'chr1': [(0, 1), (150, 150), (999, 1050)], 'chr2': [(0, 5000)]},
                  {'chrUn_alt': [(49, 50)], 'chr1': [(149, 150), (200, 201)]}]
    flag_names = ['r1only', 'r2only', 'filterMP', 'proper_pairs_only', 'no_indels',
                  'no_softclips', 'filterXA', 'dedup', 'divideMultimapping',
                  'doNotDivideFragments', 'splitFeatures', 'keepOverBounds']
    feature_choices = [
        (False, ['GN']), (False, ['GN', 'DA']), (True, ['GN']), (True, ['GN', 'DA']),
        (True, ['chrom', 'DS']), (True, ['DS']), (False, ['DS']), (True, ['GN', 'vv']),
        (False, ['GN', 'vv']), (True, ['chrom', 'GN', 'vs']), (False, ['vs']),
        (True, ['BI']), (False, ['bi', 'BI']), (True, ['reference_start', 'is_read1', 'zz']),
        (False, ['GN', 'GN']), (True, []), (False, [])]
    for trial in range(160):
        kw = {name: (rng.random() < 0.25) for name in flag_names}
        kw['minMQ'] = rng.choice([0, 0, 1, 20, 21, 60])
        kw['max_base_edits'] = rng.choice([None, None, 0, 1, 2, 5])
        join, feats = rng.choice(feature_choices)
        kw['bin'] = rng.choice([None, None, None, 100, 1000, 250])
        kw['sliding'] = kw['bin'] if kw['bin'] is None or rng.random() < 0.5 else rng.choice([50, 100, 125])
        kw['binTag'] = 'DS'
        kw['byValue'] = rng.choice([None, None, None, 'vv', 'vs', 'vf', 'GN', ''])
        kw['bedfile'] = rng.choice([None, None, None, 'x.bed'])
        # keep most trials away from the not implemented combinations
        if not join and rng.random() < 0.8:
            kw['bin'] = kw['sliding'] = None
        if join and kw['splitFeatures'] and rng.random() < 0.8:
            kw['byValue'] = None
        kw['featureDelimiter'] = rng.choice([',', ',', ';', ',,'])
        args = make_args(**kw)
        args.ref_lengths = {'chr1': 10000, 'chr2': 5000, 'chrUn_alt': 3000}
        sampleTags = rng.choice([['SM'], ['SM', 'LY'], ['LY'], ['chrom', 'SM'], []])
        bl = rng.choice(blacklists)
        more_args = [100, 200, 'regionA'] if kw['bedfile'] else []
        table = collections.defaultdict(collections.Counter)
        verdicts = []
        for read in reads:
            try:
                verdicts.append(repr(ct.read_should_be_counted(read, args, bl)))
            except Exception as e:
                verdicts.append('EXC:' + type(e).__name__ + ':' + str(e))
            try:
                n = ct.assignReads(read, table, args, join, list(feats), sampleTags,
                                   more_args=more_args, blacklist_dic=bl)
                verdicts.append(repr(n))
            except Exception as e:
                verdicts.append('EXC:' + type(e).__name__ + ':' + str(e))
        emit('UNIT', label, trial, sorted((k, repr(v)) for k, v in kw.items()), join, feats,
             sampleTags, repr(bl), ','.join(verdicts), table_repr(table))

    # default arguments of read_should_be_counted / assignReads
    args = make_args()
    table = collections.defaultdict(collections.Counter)
    out = []
    for read in reads:
        try:
            out.append(repr(ct.read_should_be_counted(read, args)))
            out.append(repr(ct.assignReads(read, table, args, False, ['GN'], ['SM'])))
        except Exception as e:
            out.append('EXC:' + type(e).__name__ + ':' + str(e))
    emit('UNITDEFAULT', label, ','.join(out), table_repr(table))

    # metaFromRead / readTag
    tags = ['chrom', 'SM', 'BI', 'bi', 'DS', 'XX', 'reference_start', 'is_read1',
            'query_name', 'nonexisting_attribute', 'cigarstring', 'mapping_quality',
            '', 'S', 'SMX', None, 5, b'SM', 'NH', 'mp']
    for read in reads[:150]:
        row = []
        for tag in tags:
            for fn in (metaFromRead, md.metaFromRead):
                try:
                    row.append(repr(fn(read, tag)))
                except Exception as e:
                    row.append('EXC:' + type(e).__name__ + ':' + str(e))
            row.append(repr(ct.readTag(read, tag)))
            row.append(repr(ct.readTag(read, tag, defective=-1)))
        emit('META', label, '|'.join(row))


def fake_reads():
    yield 'none', None
    yield 'plain', FakeRead(tags={'SM': 'c', 'GN': 'g'})
    yield 'noend', FakeRead(reference_end=None, tags={'SM': 'c', 'GN': 'g'})
    yield 'nocigar', FakeRead(cigarstring=None, tags={'SM': 'c', 'GN': 'g'})
    yield 'startin', FakeRead(reference_start=150, reference_end=None, tags={'SM': 'c', 'GN': 'g'})
    yield 'otherchrom', FakeRead(reference_name='chrZ', tags={'SM': 'c', 'GN': 'g'})
    yield 'nochrom', FakeRead(reference_name=None, tags={'SM': 'c', 'GN': 'g'})
    yield 'unmapped_rr', FakeRead(is_unmapped=True, tags={'RR': 'x'})
    yield 'dup', FakeRead(is_duplicate=True, tags={'SM': 'c', 'GN': 'g'})
    yield 'rr', FakeRead(tags={'SM': 'c', 'GN': 'g', 'RR': ''})
    yield 'pairhalf', FakeRead(is_paired=True, is_read1=True, tags={'SM': 'c', 'GN': 'g', 'NH': 1})
    yield 'pairmateun', FakeRead(is_paired=True, is_read2=True, mate_is_unmapped=True,
                                 tags={'SM': 'c', 'GN': 'g', 'NH': '2', 'XA': 'a;b;c'})
    yield 'nh0', FakeRead(tags={'SM': 'c', 'GN': 'g', 'NH': 0})
    yield 'bi', FakeRead(tags={'SM': 'c', 'bi': 3})
    yield 'BI', FakeRead(tags={'SM': 'c', 'BI': 4})


def fake_level():
    blacklists = [None, {}, {'chr1': [(100, 200)]}, {'chr1': [(140, 160)]},
                  {'chr1': [(150, 151)]}, {'chr1': [(0, 100), (151, 300)]},
                  {'chr1': []}, {'chr1': [(100,)]}, {'chr1': [(500,)]}, {'chr1': [(100, 200, 'x')]},
                  {None: [(0, 1000)]}]
    arg_sets = [dict(), dict(dedup=True), dict(r1only=True), dict(r2only=True),
                dict(no_indels=True), dict(no_softclips=True), dict(filterMP=True),
                dict(divideMultimapping=True), dict(doNotDivideFragments=True),
                dict(divideMultimapping=True, doNotDivideFragments=True),
                dict(divideMultimapping=True, r1only=True), dict(minMQ=60), dict(minMQ=61),
                dict(byValue='NH'), dict(byValue='GN')]
    for name, read in fake_reads():
        for ai, kw in enumerate(arg_sets):
            args = make_args(**kw)
            for bi, bl in enumerate(blacklists):
                for join, feats in ((False, ['GN']), (True, ['GN', 'NH']), (True, ['BI']), (False, ['bi'])):
                    table = collections.defaultdict(collections.Counter)
                    res = []
                    try:
                        res.append(repr(ct.read_should_be_counted(read, args, bl)))
                    except Exception as e:
                        res.append('EXC:' + type(e).__name__ + ':' + str(e))
                    try:
                        res.append(repr(ct.assignReads(read, table, args, join, feats, ['SM'],
                                                       blacklist_dic=bl)))
                    except Exception as e:
                        res.append('EXC:' + type(e).__name__ + ':' + str(e))
                    emit('FAKE', name, ai, bi, join, feats, res, table_repr(table))
        for tag in ['chrom', 'SM', 'BI', 'bi', 'reference_start', 'missing', 'tags']:
            try:
                emit('FAKEMETA', name, tag, repr(metaFromRead(read, tag)), repr(ct.readTag(read, tag)))
            except Exception as e:
                emit('FAKEMETA', name, tag, 'EXC:' + type(e).__name__ + ':' + str(e),
                     repr(ct.readTag(read, tag)))


def table_level(tmp, bams, rng):
    main_bam, second_bam, faulty_bam, empty_bam, unindexed_bam, unmapped_bam = bams

    def w(name, text):
        p = os.path.join(tmp, name)
        with open(p, 'w') as h:
            h.write(text)
        return p

    bl_a = w('bl_a.bed', 'chr1\t100\t200\nchr1\t1000\t1050\nchr2\t0\t5000\n')
    bl_b = w('bl_b.bed', 'chr1 0 1\nchr1 149 150 name extra\nchrUn_alt\t0\t3000\nchrZ\t5\t9\n')
    bl_empty = w('bl_empty.bed', '')
    bl_blank = w('bl_blank.bed', 'chr1\t100\t200\n\nchr2\t1\t2\n')
    bl_bad = w('bl_bad.bed', 'chr1\t1e2\t200\n')
    bl_short = w('bl_short.bed', 'chr1\t100\n')
    bed_a = w('regions_a.bed', 'chr1\t0\t500\tregA\nchr1\t100\t1100\tregB\nchr2\t0\t5000\tregC\n'
                               'chrUn_alt\t10\t20\tregD\n')
    bed_b = w('regions_b.bed', 'chr1\t0.0\t1e3\tfloaty\nchr2\t200\t200\tempty\nchr2\t4000\t5000\tend\n')
    bed_empty = w('regions_empty.bed', '')
    bed_bad = w('regions_bad.bed', 'chr1\t0\t500\n')
    bed_unknown = w('regions_unknown.bed', 'chrQ\t0\t500\tnope\n')

    # A fixed list of specific corner cases first
    fixed = [
        dict(featureTags='GN'),
        dict(joinedFeatureTags='GN'),
        dict(joinedFeatureTags='chrom,GN'),
        dict(featureTags='GN', dedup=True),
        dict(featureTags='GN', minMQ=20),
        dict(featureTags='GN', minMQ=21),
        dict(featureTags='GN', minMQ=256),
        dict(featureTags='GN', r1only=True),
        dict(featureTags='GN', r2only=True),
        dict(featureTags='GN', r1only=True, r2only=True),
        dict(featureTags='GN', doNotDivideFragments=True),
        dict(featureTags='GN', divideMultimapping=True),
        dict(featureTags='GN', divideMultimapping=True, doNotDivideFragments=True),
        dict(featureTags='GN', no_indels=True, no_softclips=True),
        dict(featureTags='GN', max_base_edits=0),
        dict(featureTags='GN', max_base_edits=2),
        dict(featureTags='GN', filterXA=True),
        dict(featureTags='GN', filterMP=True),
        dict(featureTags='GN', proper_pairs_only=True),
        dict(featureTags='GN', blacklist=bl_a),
        dict(featureTags='GN', blacklist=bl_b),
        dict(featureTags='GN', blacklist=bl_empty),
        dict(featureTags='GN', blacklist=bl_blank),
        dict(featureTags='GN', blacklist=bl_bad),
        dict(featureTags='GN', blacklist=bl_short),
        dict(featureTags='GN', blacklist=os.path.join(tmp, 'does_not_exist.bed')),
        dict(featureTags='GN', splitFeatures=True),
        dict(featureTags='GN,DA', splitFeatures=True),
        dict(joinedFeatureTags='GN,DA', splitFeatures=True),
        dict(joinedFeatureTags='GN,DA', splitFeatures=True, featureDelimiter=';'),
        dict(joinedFeatureTags='GN', splitFeatures=True, byValue='vv'),
        dict(joinedFeatureTags='GN', byValue='vv'),
        dict(joinedFeatureTags='GN,vv', byValue='vv'),
        dict(joinedFeatureTags='GN', byValue='vs'),
        dict(joinedFeatureTags='GN', byValue='vf'),
        dict(featureTags='GN,vv', byValue='vv'),
        dict(featureTags='vv', byValue='vv'),
        dict(featureTags='GN', byValue='vv'),
        dict(joinedFeatureTags='chrom', bin=1000),
        dict(joinedFeatureTags='chrom', bin=1000, sliding=250),
        dict(joinedFeatureTags='chrom', bin=1000, sliding=250, keepOverBounds=True),
        dict(joinedFeatureTags='chrom,DS', bin=100),
        dict(joinedFeatureTags='DS', bin=100),
        dict(joinedFeatureTags='DS', bin=100, splitFeatures=True),
        dict(joinedFeatureTags='chrom', bin=500, byValue='vv'),
        dict(featureTags='chrom', bin=1000),
        dict(bin=1000),
        dict(joinedFeatureTags='chrom', bin=1000, binTag='vv'),
        dict(joinedFeatureTags='chrom', bin=1000, binTag='GN'),
        dict(joinedFeatureTags='chrom,GN', bedfile=bed_a),
        dict(featureTags='GN', bedfile=bed_a),
        dict(featureTags='GN', bedfile=bed_a, splitFeatures=True),
        dict(featureTags='GN', bedfile=bed_b, contig='chr2'),
        dict(joinedFeatureTags='GN', bedfile=bed_a, byValue='vv'),
        dict(joinedFeatureTags='GN', bedfile=bed_empty),
        dict(joinedFeatureTags='GN', bedfile=bed_bad),
        dict(joinedFeatureTags='GN', bedfile=bed_unknown),
        dict(joinedFeatureTags='GN', bedfile=bed_a, head=3),
        dict(featureTags='GN', contig='chr1'),
        dict(featureTags='GN', contig='chr2', dedup=True),
        dict(featureTags='GN', contig='chrUn_alt'),
        dict(featureTags='GN', contig='chrQ'),
        dict(featureTags='GN', head=0),
        dict(featureTags='GN', head=10),
        dict(featureTags='GN', sampleTags='SM,LY'),
        dict(featureTags='GN', sampleTags='chrom'),
        dict(featureTags='GN', noNames=True),
        dict(joinedFeatureTags='GN,DA', noNames=True),
        dict(featureTags='BI'),
        dict(featureTags='bi'),
        dict(joinedFeatureTags='BI,bi'),
        dict(featureTags='reference_start'),
        dict(featureTags='zz'),
        dict(),
        dict(featureTags=''),
        dict(showtags=True, featureTags='GN'),
    ]
    for i, kw in enumerate(fixed):
        for bam_label, files in (('main', [main_bam]), ('two', [main_bam, second_bam])):
            if bam_label == 'two' and i % 3:
                continue
            kw2 = dict(kw)
            kw2['alignmentfiles'] = files
            run_table(f'fixed{i}-{bam_label}', kw2)

    # other inputs: empty, unmapped-only, faulty, unindexed, missing, none
    for name, files in (('empty', [empty_bam]), ('unmappedonly', [unmapped_bam]),
                        ('faulty', [faulty_bam]), ('unindexed', [unindexed_bam]),
                        ('missing', [os.path.join(tmp, 'nothere.bam')]), ('nofiles', []),
                        ('empty+main', [empty_bam, main_bam]), ('main+faulty', [main_bam, faulty_bam])):
        for kw in (dict(featureTags='GN'), dict(joinedFeatureTags='chrom,GN', dedup=True),
                   dict(joinedFeatureTags='chrom', bin=1000),
                   dict(featureTags='GN', divideMultimapping=True),
                   dict(featureTags='GN', filterXA=True),
                   dict(featureTags='GN', max_base_edits=1),
                   dict(featureTags='GN', no_indels=True),
                   dict(featureTags='GN', blacklist=bl_a),
                   dict(featureTags='GN', contig='chr1'),
                   dict(joinedFeatureTags='GN', bedfile=bed_a)):
            kw2 = dict(kw)
            kw2['alignmentfiles'] = files
            run_table(f'other-{name}', kw2)

    # output files
    for i, (kw, out) in enumerate([
            (dict(featureTags='GN'), 'o1.csv'),
            (dict(featureTags='GN', bulk=True), 'o2.csv'),
            (dict(joinedFeatureTags='chrom,GN', bulk=True, dedup=True), 'o3.csv'),
            (dict(joinedFeatureTags='chrom', bin=1000, blacklist=bl_a), 'o4.csv'),
            (dict(joinedFeatureTags='GN,DA'), 'o5.pickle.gz'),
            (dict(joinedFeatureTags='GN'), 'o6.pickle'),
            (dict(featureTags='GN', minMQ=300), 'o7.csv'),
            (dict(featureTags='GN', minMQ=300, bulk=True), 'o8.csv')]):
        kw2 = dict(kw)
        kw2['alignmentfiles'] = [main_bam]
        run_table(f'file{i}', kw2, to_file=os.path.join(tmp, out))
    # no output and no return_df -> showtags
    run_table('noout', dict(featureTags='GN', alignmentfiles=[main_bam]), to_file=None)
    args = make_args(featureTags='GN', alignmentfiles=[main_bam])
    out = io.StringIO()
    try:
        with contextlib.redirect_stdout(out):
            ct.create_count_table(args)
        res = 'returned'
    except SystemExit as e:
        res = 'EXIT:' + repr(e.code)
    except Exception as e:
        res = 'EXC:' + type(e).__name__ + ':' + str(e)
    emit('NOOUT', res, out.getvalue())

    # random combinations
    bool_opts = ['r1only', 'r2only', 'filterMP', 'proper_pairs_only', 'no_indels',
                 'no_softclips', 'filterXA', 'dedup', 'divideMultimapping',
                 'doNotDivideFragments', 'splitFeatures', 'keepOverBounds', 'noNames']
    feature_opts = [dict(featureTags='GN'), dict(featureTags='GN,DA'), dict(joinedFeatureTags='GN'),
                    dict(joinedFeatureTags='chrom,GN'), dict(joinedFeatureTags='GN,DA'),
                    dict(joinedFeatureTags='chrom'), dict(featureTags='chrom'),
                    dict(joinedFeatureTags='chrom,DS'), dict(featureTags='DS')]
    for trial in range(260):
        kw = {name: True for name in bool_opts if rng.random() < 0.2}
        kw.update(rng.choice(feature_opts))
        kw['minMQ'] = rng.choice([0, 0, 0, 1, 20, 21, 60])
        if rng.random() < 0.3:
            kw['max_base_edits'] = rng.choice([0, 1, 2, 5, 10])
        if rng.random() < 0.3:
            kw['blacklist'] = rng.choice([bl_a, bl_b, bl_empty])
        mode = rng.random()
        if mode < 0.3 and 'joinedFeatureTags' in kw:
            kw['bin'] = rng.choice([100, 500, 1000, 3000])
            if rng.random() < 0.5:
                kw['sliding'] = rng.choice([50, 100, 250, 1000])
        elif mode < 0.5:
            kw['bedfile'] = rng.choice([bed_a, bed_b])
        if rng.random() < 0.25:
            kw['byValue'] = rng.choice(['vv', 'vs', 'vf'])
        if rng.random() < 0.3:
            kw['contig'] = rng.choice(CONTIGS)
        if rng.random() < 0.15:
            kw['head'] = rng.choice([0, 1, 5, 50])
        if rng.random() < 0.3:
            kw['sampleTags'] = rng.choice(['SM,LY', 'LY', 'SM,chrom'])
        kw['alignmentfiles'] = rng.choice([[main_bam], [second_bam], [main_bam, second_bam],
                                           [second_bam, main_bam, empty_bam]])
        run_table(f'rand{trial}-{len(kw["alignmentfiles"])}', kw)


def main():
    rng = random.Random(20240911)
    tmp = tempfile.mkdtemp(prefix='demo_same_')
    TMPDIR[0] = tmp
    try:
        header = pysam.AlignmentHeader.from_dict(HEADER)
        main_reads = [random_read(rng, header, i) for i in range(700)]
        # a few planted mate pairs: both mapped, same name
        for i in range(40):
            a = random_read(rng, header, 10000 + i)
            a.flag = 0x1 | 0x2 | 0x40 | (0x400 if i % 7 == 0 else 0)
            if a.cigarstring is None:
                a.cigarstring = '50M'
                a.reference_id = 0
                a.reference_start = 300 + i
            a.mapping_quality = 60
            b = pysam.AlignedSegment.fromstring(a.to_string(), header)
            b.flag = 0x1 | 0x2 | 0x80 | 0x10
            b.reference_start = a.reference_start + 120
            if i % 5 == 0:
                b.flag |= 0x4
                a.flag |= 0x8
            main_reads.extend([a, b])
        second_reads = [random_read(rng, header, 20000 + i) for i in range(250)]
        faulty_reads = [random_read(rng, header, 30000 + i, with_faulty=True) for i in range(200)]
        unmapped_reads = []
        for i in range(20):
            r = random_read(rng, header, 40000 + i)
            r.flag = (r.flag | 0x4)
            r.cigarstring = None
            unmapped_reads.append(r)

        main_bam = os.path.join(tmp, 'main.bam')
        second_bam = os.path.join(tmp, 'second.bam')
        faulty_bam = os.path.join(tmp, 'faulty.bam')
        empty_bam = os.path.join(tmp, 'empty.bam')
        unindexed_bam = os.path.join(tmp, 'unindexed.bam')
        unmapped_bam = os.path.join(tmp, 'unmapped.bam')
        write_bam(main_bam, main_reads)
        write_bam(second_bam, second_reads)
        write_bam(faulty_bam, faulty_reads)
        write_bam(empty_bam, [])
        write_bam(unindexed_bam, second_reads[:60], sort=False, index=False)
        write_bam(unmapped_bam, unmapped_reads)

        with pysam.AlignmentFile(main_bam) as f:
            loaded_main = list(f)
        with pysam.AlignmentFile(faulty_bam) as f:
            loaded_faulty = list(f)
        with pysam.AlignmentFile(unmapped_bam) as f:
            loaded_unmapped = list(f)

        unit_level(loaded_main[:400], random.Random(1), 'main')
        unit_level(loaded_faulty, random.Random(2), 'faulty')
        unit_level(loaded_unmapped, random.Random(3), 'unmapped')
        unit_level([], random.Random(4), 'noreads')
        fake_level()
        table_level(tmp, (main_bam, second_bam, faulty_bam, empty_bam, unindexed_bam,
                          unmapped_bam), random.Random(5))
    finally:
        shutil.rmtree(tmp, ignore_errors=True)
    print(f'records: {N_RECORDS[0]}')
    print(DIGEST.hexdigest())


if __name__ == '__main__':
    main()
