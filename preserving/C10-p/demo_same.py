#!/usr/bin/env python3
"""Differential script for the binned count table code (property C10).

Builds its own BAM files in a temporary directory, runs the binning helpers
and the count table entry point on a few hundred inputs and prints a sha256
digest over everything which was observed (return values, value types,
exceptions, written files and terminal output) as the last line.
"""
import contextlib
import gzip
import hashlib
import io
import itertools
import os
import shutil
import sys
import tempfile
import warnings
from types import SimpleNamespace

import numpy as np
import pandas as pd
import pysam

warnings.simplefilter('ignore')

import singlecellmultiomics.utils
import singlecellmultiomics.utils.binning as binning
import singlecellmultiomics.bamProcessing.bamToCountTable as b2c

DIGEST = hashlib.sha256()
N_RECORDS = 0


def record(label, value):
    global N_RECORDS
    N_RECORDS += 1
    DIGEST.update(f'{label}\x00{value}\x01'.encode('utf8', 'replace'))
    if os.environ.get('DEMO_SAME_DUMP'):
        with open(os.environ['DEMO_SAME_DUMP'], 'a') as handle:
            handle.write(f'=== {label}\n{value}\n')


def typed(value):
    """repr including the types of (nested) values"""
    if isinstance(value, (list, tuple)):
        return f'{type(value).__name__}[' + ','.join(typed(v)
                                                    for v in value) + ']'
    return f'{type(value).__name__}:{value!r}'


def call(function, *args, **kwargs):
    try:
        return 'OK ' + typed(function(*args, **kwargs))
    except BaseException as e:
        return f'EXC {type(e).__name__}: {e}'


# ---------------------------------------------------------------------------
# 1. The coordinate -> bin helpers, all three ways to reach them
# ---------------------------------------------------------------------------
def direct_helper_checks():
    namespaces = [('b2c', b2c), ('binning', binning),
                  ('utils', singlecellmultiomics.utils)]
    bin_sizes = list(range(1, 13)) + [16, 50, 100]
    for name, module in namespaces:
        for bin_size in bin_sizes:
            increments = sorted(set(list(range(1, min(bin_size, 12) + 1)) +
                                    [bin_size, bin_size * 2, bin_size + 1]))
            for increment in increments:
                out = []
                for dp in range(-25, 131):
                    out.append(call(module.coordinate_to_sliding_bin_locations,
                                    dp, bin_size, increment))
                    out.append(call(module.coordinate_to_bins,
                                    dp, bin_size, increment))
                record(f'direct {name} {bin_size} {increment}', '|'.join(out))

        # containment / exactly once (the property itself) on ints
        for bin_size, increment in [(10, 10), (10, 5), (10, 3), (7, 2),
                                    (1, 1), (100, 1)]:
            for dp in range(0, 301):
                bins = module.coordinate_to_bins(dp, bin_size, increment)
                assert all(s <= dp < e and e - s == bin_size for s, e in bins)
                assert len(set(bins)) == len(bins)
                if increment == bin_size:
                    assert bins == [((dp // bin_size) * bin_size,
                                     (dp // bin_size) * bin_size + bin_size)]

        odd_inputs = [
            (0, 10, 10), (10, 10, 10), (9, 10, 10), (-1, 10, 10), (-10, 10, 10),
            (10 ** 9, 1000, 1000), (10 ** 9 - 1, 1000, 250), (2 ** 31, 2 ** 16, 2 ** 15),
            (2 ** 53 + 1, 10, 10), (10 ** 18 + 7, 1000, 10), (10 ** 400, 10, 10),
            (5, 10, 0), (5, 0, 5), (5, 0, 0), (0, 0, 0), (5, 10, -1), (5, 10, -3),
            (5, -10, 2), (-5, -10, -2),
            (5.0, 10, 10), (9.999, 10, 10), (10.0, 10, 5), (0.3, 0.1, 0.1),
            (1.0, 0.1, 0.1), (7.5, 2.5, 2.5), (7.5, 5, 2.5), (-0.0, 10, 10),
            (float('nan'), 10, 10), (float('inf'), 10, 10), (5, 10, float('inf')),
            (5, float('inf'), 10), (5, 10, float('nan')),
            (np.int64(25), 10, 10), (np.int32(25), 10, 5), (25, np.int64(10), np.int64(5)),
            (np.int64(25), np.int64(10), np.int64(0)), (np.float64(25.5), 10, 10),
            (np.float32(25.5), 10, 5), (np.uint8(200), 100, 50), (np.uint8(3), 10, 10),
            (np.float64('nan'), 10, 10), (np.float64('inf'), 10, 10),
            (True, 10, 10), (False, 1, 1), (5, True, True),
            ('5', 10, 10), (5, '10', 10), (5, 10, '10'), (None, 10, 10),
            (5, None, 10), (5, 10, None), ([5], 10, 10), (5 + 0j, 10, 10),
        ]
        import fractions
        import decimal
        odd_inputs += [(fractions.Fraction(51, 2), 10, 5),
                       (decimal.Decimal('25.5'), 10, 5),
                       (decimal.Decimal('25'), decimal.Decimal('10'), decimal.Decimal('5'))]
        for triple in odd_inputs:
            record(f'odd {name} {triple!r}',
                   call(module.coordinate_to_sliding_bin_locations, *triple) +
                   ' ## ' + call(module.coordinate_to_bins, *triple))

        # the first overlapping bin, as used by split_double_BAM
        for dp in list(range(0, 120)) + [49999, 50000, 50001, 99999, 100000]:
            for binsize in (1, 7, 50, 50000):
                record(f'first {name} {dp} {binsize}',
                       call(lambda: module.coordinate_to_bins(dp, binsize, binsize)[0]))

        # results are fresh lists (no shared state between calls)
        first = module.coordinate_to_bins(25, 10, 5)
        first.append('mutated')
        record(f'fresh {name}', typed(module.coordinate_to_bins(25, 10, 5)))


# ---------------------------------------------------------------------------
# 2. BAM construction
# ---------------------------------------------------------------------------
def write_bam(path, contigs, reads, index=True):
    header = {'HD': {'VN': '1.6', 'SO': 'coordinate'},
              'SQ': [{'SN': n, 'LN': l} for n, l in contigs]}
    order = {n: i for i, (n, l) in enumerate(contigs)}
    mapped = [r for r in reads if not r.get('unmapped')]
    unmapped = [r for r in reads if r.get('unmapped')]
    # stable sort: reads starting on the same coordinate keep their order
    mapped.sort(key=lambda r: (order[r['contig']], r['pos']))
    with pysam.AlignmentFile(path, 'wb', header=header) as out:
        for i, r in enumerate(mapped + unmapped):
            a = pysam.AlignedSegment(out.header)
            a.query_name = r.get('name', f'read{i}')
            length = r.get('length', 4)
            a.query_sequence = 'ACGT' * (length // 4) + 'A' * (length % 4)
            a.query_qualities = pysam.qualitystring_to_array('I' * length)
            flag = r.get('flag', 0)
            if r.get('unmapped'):
                a.flag = flag | 4
                a.reference_id = -1
                a.reference_start = -1
            else:
                a.flag = flag
                a.reference_id = order[r['contig']]
                a.reference_start = r['pos']
                a.mapping_quality = r.get('mq', 60)
                a.cigarstring = r.get('cigar', f'{length}M')
                if 'mate_pos' in r:
                    a.next_reference_id = order[r['contig']]
                    a.next_reference_start = r['mate_pos']
            for tag, value in r.get('tags', {}).items():
                if isinstance(value, tuple):
                    a.set_tag(tag, value[0], value_type=value[1])
                else:
                    a.set_tag(tag, value)
            out.write(a)
    if index:
        pysam.index(path)


def default_args(**overrides):
    args = dict(
        alignmentfiles=[], head=None, o=None, bin=None, binTag='DS',
        sliding=None, bedfile=None, showtags=False, featureTags=None,
        joinedFeatureTags='reference_name', byValue=None, sampleTags='SM',
        proper_pairs_only=False, no_indels=False, max_base_edits=None,
        no_softclips=False, minMQ=0, filterXA=False, dedup=False,
        divideMultimapping=False, doNotDivideFragments=True, contig=None,
        blacklist=None, r1only=False, r2only=False, filterMP=False,
        splitFeatures=False, featureDelimiter=',', feature_delimiter=',',
        noNames=False, keepOverBounds=False, bulk=False)
    args.update(overrides)
    return SimpleNamespace(**args)


def describe_df(df):
    if not isinstance(df, pd.DataFrame):
        return f'NOT A FRAME {typed(df)}'
    parts = [
        'shape=' + repr(df.shape),
        'index_names=' + repr(list(df.index.names)),
        'column_names=' + repr(list(df.columns.names)),
        'index=' + repr([typed(i) if isinstance(i, tuple) else typed((i,))
                         for i in df.index]),
        'columns=' + repr(list(df.columns)),
        'dtypes=' + repr([str(t) for t in df.dtypes]),
        'csv=' + df.to_csv(),
        'total=' + repr(float(np.nansum(df.values))) if df.size else 'total=empty',
    ]
    return '\n'.join(parts)


def run_table(label, args, return_df=True):
    """Run the entry point, record the table / exception and the terminal
    output"""
    stdout = io.StringIO()
    stderr = io.StringIO()
    with contextlib.redirect_stdout(stdout), contextlib.redirect_stderr(stderr):
        try:
            result = b2c.create_count_table(args, return_df=return_df)
            if return_df:
                outcome = 'OK\n' + describe_df(result)
            else:
                outcome = 'OK ' + typed(result)
        except BaseException as e:
            result = None
            outcome = f'EXC {type(e).__name__}: {e}'
    record(label, outcome)
    record(label + ' stdout', stdout.getvalue())
    record(label + ' stderr', stderr.getvalue())
    record(label + ' args.sliding', typed(getattr(args, 'sliding', 'unset')))
    record(label + ' args.ref_lengths',
           repr(getattr(args, 'ref_lengths', 'unset')))
    return result


def file_digest(path):
    if not os.path.exists(path):
        return 'MISSING'
    if path.endswith('.gz'):
        # the gzip header contains a time stamp
        return repr(pd.read_pickle(path).to_csv())
    if path.endswith('.pickle'):
        return repr(pd.read_pickle(path).to_csv())
    with open(path, 'rb') as handle:
        return hashlib.sha256(handle.read()).hexdigest()


# ---------------------------------------------------------------------------
# 3. Scenarios through the entry point
# ---------------------------------------------------------------------------
def exhaustive_coordinate_reads(contig, length, cells, tag='DS', extra=()):
    reads = []
    coordinates = list(range(0, length + 1)) + list(extra)
    for n, ds in enumerate(coordinates):
        pos = min(max(ds, 0), length - 4)
        reads.append({'name': f'{contig}_{tag}_{ds}_{n}', 'contig': contig,
                      'pos': pos,
                      'tags': {tag: ds, 'SM': cells[n % len(cells)]}})
    return reads


def entry_point_checks(workdir):
    os.chdir(workdir)
    cells = ['cellA', 'cellB', 'cellC']

    # --- exhaustive coordinates -------------------------------------------
    contigs = [('chr1', 60), ('chr2', 37), ('chrEmpty', 11)]
    reads = exhaustive_coordinate_reads('chr1', 60, cells, extra=(61, 65, 100, -1, -3, -10))
    reads += exhaustive_coordinate_reads('chr2', 37, cells[:2], extra=(38, 40, -2))
    # several reads on exactly the same boundary coordinates
    for ds in (0, 10, 20, 30, 59, 60):
        for k in range(3):
            reads.append({'name': f'dup_{ds}_{k}', 'contig': 'chr1',
                          'pos': min(ds, 56),
                          'tags': {'DS': ds, 'SM': cells[k]}})
    write_bam('exhaustive.bam', contigs, reads)

    bin_sizes = [1, 2, 3, 5, 7, 10, 16, 30, 37, 59, 60, 61, 100]
    for bin_size in bin_sizes:
        increments = sorted(set([1, 2, 3, max(1, bin_size // 2), bin_size])
                            & set(range(1, bin_size + 1)))
        for increment in [None] + increments:
            for keep in (False, True):
                run_table(
                    f'exhaustive bin={bin_size} s={increment} keep={keep}',
                    default_args(alignmentfiles=['exhaustive.bam'],
                                 bin=bin_size, sliding=increment,
                                 keepOverBounds=keep,
                                 joinedFeatureTags='reference_name'))
    # sliding increment larger than the bin (gaps between the windows)
    for bin_size, increment in [(5, 7), (3, 10), (10, 11), (1, 2)]:
        for keep in (False, True):
            run_table(f'gaps bin={bin_size} s={increment} keep={keep}',
                      default_args(alignmentfiles=['exhaustive.bam'],
                                   bin=bin_size, sliding=increment,
                                   keepOverBounds=keep))

    # bin tag itself as only feature, chrom alias, noNames, contig restriction
    for joined in ('DS', 'chrom,DS', 'DS,reference_name', 'reference_name,SM', None):
        for no_names in (False, True):
            for contig in (None, 'chr2', 'chrEmpty'):
                run_table(
                    f'features joined={joined} noNames={no_names} contig={contig}',
                    default_args(alignmentfiles=['exhaustive.bam'], bin=10,
                                 sliding=5, joinedFeatureTags=joined,
                                 noNames=no_names, contig=contig))
    for head in (0, 1, 5, 63, 1000):
        run_table(f'head={head}',
                  default_args(alignmentfiles=['exhaustive.bam'], bin=7,
                               head=head))

    # --- other bin tags ------------------------------------------------------
    reads = []
    values = [0, 1, 9, 10, 11, 19, 20, 21, 49, 50]
    for n, v in enumerate(values):
        reads.append({'name': f'xx{n}', 'contig': 'chr1', 'pos': 3 * n,
                      'tags': {'XX': v, 'ZS': str(50 - v), 'SM': cells[n % 3],
                               'AL': 'ref' if n % 2 else 'alt',
                               'GN': 'geneA,geneB' if n % 3 == 0 else 'geneC',
                               'VL': float(n) / 4,
                               'SV': str(n) if n % 4 else 'notanumber',
                               'XS': (v % 128, 'c'), 'XB': (v, 'C'),
                               'XI': (v * 1000, 'I')}})
    # reads without (some of) the tags, with the literal None, empty string
    reads.append({'name': 'notag', 'contig': 'chr1', 'pos': 31,
                  'tags': {'SM': 'cellA'}})
    reads.append({'name': 'nosample', 'contig': 'chr1', 'pos': 32,
                  'tags': {'XX': 20, 'ZS': '20'}})
    reads.append({'name': 'nonestring', 'contig': 'chr1', 'pos': 33,
                  'tags': {'ZS': 'None', 'SM': 'cellB', 'XX': 30}})
    reads.append({'name': 'zero', 'contig': 'chr2', 'pos': 0,
                  'tags': {'XX': 0, 'ZS': '0', 'SM': 'cellC', 'VL': 0.0,
                           'SV': '0'}})
    reads.append({'name': 'end', 'contig': 'chr2', 'pos': 33,
                  'tags': {'XX': 37, 'ZS': '37', 'SM': 'cellC', 'VL': 2.5,
                           'SV': '-1.5'}})
    write_bam('othertags.bam', contigs, reads)

    for bin_tag in ('XX', 'ZS', 'XS', 'XB', 'XI', 'reference_start',
                    'reference_end', 'pos', 'mapping_quality', 'DS', 'SM',
                    'VL', 'GN', 'chrom', 'query_length'):
        for bin_size, increment in ((10, None), (10, 5), (4, 3), (50, 1)):
            for keep in (False, True):
                run_table(
                    f'bintag={bin_tag} bin={bin_size} s={increment} keep={keep}',
                    default_args(alignmentfiles=['othertags.bam'],
                                 bin=bin_size, sliding=increment,
                                 binTag=bin_tag, keepOverBounds=keep,
                                 joinedFeatureTags='reference_name,AL'))

    # split features, by value, plain feature tags with binning
    for kwargs in (
            dict(joinedFeatureTags='GN,AL', splitFeatures=True),
            dict(joinedFeatureTags='GN', splitFeatures=True, sliding=2),
            dict(joinedFeatureTags='GN,XX', splitFeatures=True),
            dict(joinedFeatureTags='GN,AL', splitFeatures=True, byValue='VL'),
            dict(joinedFeatureTags='AL', byValue='VL'),
            dict(joinedFeatureTags='AL', byValue='SV'),
            dict(joinedFeatureTags='AL,VL', byValue='VL', sliding=5),
            dict(joinedFeatureTags='AL', byValue='XX'),
            dict(joinedFeatureTags=None, featureTags='AL'),
            dict(joinedFeatureTags=None, featureTags='AL,XX'),
            dict(joinedFeatureTags=None, featureTags='XX'),
            dict(joinedFeatureTags=None, featureTags=None),
            dict(joinedFeatureTags='', featureTags=None),
            dict(joinedFeatureTags='AL', sampleTags='SM,AL'),
            dict(joinedFeatureTags='AL', sampleTags='reference_name'),
            dict(joinedFeatureTags='AL', sampleTags='QQ'),
    ):
        for keep in (False, True):
            args = dict(alignmentfiles=['othertags.bam'], bin=10, binTag='XX',
                        keepOverBounds=keep)
            args.update(kwargs)
            run_table(f'modes {sorted(kwargs.items())} keep={keep}',
                      default_args(**args))

    # --- read weights and filters -------------------------------------------
    reads = []
    for n, ds in enumerate([0, 4, 5, 9, 10, 14, 15, 20, 25, 29, 30, 55, 59, 60]):
        pos = min(ds, 56)
        common = {'DS': ds, 'SM': cells[n % 3]}
        # pair with mapped mate: R1 and R2 each half a count
        reads.append({'name': f'pair{n}', 'contig': 'chr1', 'pos': pos,
                      'flag': 1 | 2 | 64 | 32, 'mate_pos': pos,
                      'tags': dict(common)})
        reads.append({'name': f'pair{n}', 'contig': 'chr1', 'pos': pos,
                      'flag': 1 | 2 | 128 | 16, 'mate_pos': pos,
                      'tags': dict(common)})
        # pair with unmapped mate
        reads.append({'name': f'lonely{n}', 'contig': 'chr1', 'pos': pos,
                      'flag': 1 | 8 | 64, 'tags': dict(common)})
        # duplicates, qcfail, low MQ, multimappers, clipped, indel
        reads.append({'name': f'dupl{n}', 'contig': 'chr1', 'pos': pos,
                      'flag': 1024, 'tags': dict(common)})
        reads.append({'name': f'rr{n}', 'contig': 'chr1', 'pos': pos,
                      'tags': dict(common, RR='yes')})
        reads.append({'name': f'qc{n}', 'contig': 'chr1', 'pos': pos,
                      'flag': 512, 'tags': dict(common)})
        reads.append({'name': f'lowmq{n}', 'contig': 'chr1', 'pos': pos,
                      'mq': n, 'tags': dict(common)})
        reads.append({'name': f'xa{n}', 'contig': 'chr1', 'pos': pos,
                      'tags': dict(common, XA='chr2,+5,4M,0;chr2_alt,+9,4M,0;')})
        reads.append({'name': f'nh{n}', 'contig': 'chr1', 'pos': pos,
                      'tags': dict(common, NH=1 + n % 4, NM=n % 3)})
        reads.append({'name': f'clip{n}', 'contig': 'chr1', 'pos': pos,
                      'cigar': '1S3M', 'tags': dict(common, mp='unique')})
        reads.append({'name': f'indel{n}', 'contig': 'chr1', 'pos': pos,
                      'length': 4, 'cigar': '2M1I1M',
                      'tags': dict(common, mp='multi')})
    reads.append({'name': 'unmapped', 'unmapped': True,
                  'tags': {'DS': 10, 'SM': 'cellA'}})
    write_bam('weights.bam', contigs, reads)

    with open('blacklist.bed', 'w') as handle:
        handle.write('chr1\t9\t12\nchr1 30 31\nchr2\t0\t5\nchr1\t58\t70\n')
    with open('blacklist_empty.bed', 'w') as handle:
        pass
    with open('blacklist_blankline.bed', 'w') as handle:
        handle.write('chr1\t9\t12\n\nchr1\t30\t31\n')
    with open('blacklist_short.bed', 'w') as handle:
        handle.write('chr1\t9\t12\nchr1\t30\n')
    with open('blacklist_text.bed', 'w') as handle:
        handle.write('chr1\t9\t12\nchr1\t3e1\t40\n')
    with open('blacklist_other.bed', 'w') as handle:
        handle.write('chrUn\t0\t100\n')

    filter_modes = [
        {}, {'doNotDivideFragments': False}, {'r1only': True}, {'r2only': True},
        {'dedup': True}, {'minMQ': 5}, {'minMQ': 60}, {'filterXA': True},
        {'divideMultimapping': True},
        {'divideMultimapping': True, 'doNotDivideFragments': False},
        {'no_softclips': True}, {'no_indels': True}, {'max_base_edits': 1},
        {'max_base_edits': 0}, {'filterMP': True}, {'proper_pairs_only': True},
        {'blacklist': 'blacklist.bed'}, {'blacklist': 'blacklist_empty.bed'},
        {'blacklist': 'blacklist_other.bed'},
        {'blacklist': 'blacklist_blankline.bed'},
        {'blacklist': 'blacklist_short.bed'},
        {'blacklist': 'blacklist_text.bed'},
        {'blacklist': 'does_not_exist.bed'}, {'blacklist': '.'},
        {'blacklist': 'blacklist.bed', 'dedup': True, 'r1only': True,
         'minMQ': 2},
    ]
    for mode in filter_modes:
        for bin_size, increment, keep in ((5, None, False), (10, 5, False),
                                          (10, 3, True), (60, 20, False)):
            args = dict(alignmentfiles=['weights.bam'], bin=bin_size,
                        sliding=increment, keepOverBounds=keep)
            args.update(mode)
            run_table(f'weights {sorted(mode.items())} bin={bin_size} '
                      f's={increment} keep={keep}', default_args(**args))

    # --- several files, same contig name with different lengths -------------
    short = [('chr1', 30), ('chr2', 37)]
    long_ = [('chr2', 90), ('chr1', 200), ('chr3', 8)]
    write_bam('short.bam', short,
              exhaustive_coordinate_reads('chr1', 30, cells, extra=(31, 45)))
    write_bam('long.bam', long_,
              exhaustive_coordinate_reads('chr1', 200, cells[:2]) +
              exhaustive_coordinate_reads('chr3', 8, cells))
    write_bam('noreads.bam', contigs, [])
    write_bam('unindexed.bam', contigs,
              exhaustive_coordinate_reads('chr2', 37, cells), index=False)
    file_sets = [['short.bam', 'long.bam'], ['long.bam', 'short.bam'],
                 ['short.bam', 'short.bam'], ['noreads.bam'],
                 ['noreads.bam', 'long.bam', 'noreads.bam'],
                 ['exhaustive.bam', 'short.bam', 'weights.bam'],
                 ['unindexed.bam'], ['short.bam', 'missing.bam'], []]
    for files in file_sets:
        for bin_size, increment, keep in ((10, None, False), (10, None, True),
                                          (15, 5, False), (8, 8, False),
                                          (30, 7, False), (200, 100, False)):
            run_table(f'files {files} bin={bin_size} s={increment} keep={keep}',
                      default_args(alignmentfiles=list(files), bin=bin_size,
                                   sliding=increment, keepOverBounds=keep))
    for contig in ('chr1', 'chr3', 'chrMissing'):
        run_table(f'files contig={contig}',
                  default_args(alignmentfiles=['short.bam', 'long.bam'],
                               bin=10, contig=contig))

    # --- histories: the same argument object used again and again ----------
    args = default_args(alignmentfiles=['long.bam'], bin=10, sliding=None)
    run_table('history 1', args)
    args.alignmentfiles = ['short.bam']
    run_table('history 2 (sliding kept from first run)', args)
    args.bin = 20
    run_table('history 3 (bin changed, sliding stale)', args)
    args.bin = 0
    args.sliding = 5
    run_table('history 4 (bin zero, stale ref lengths)', args)
    args.bin = None
    run_table('history 5 (no binning any more)', args)
    args.bin = 10
    args.sliding = None
    args.keepOverBounds = True
    run_table('history 6', args)
    args.alignmentfiles = ['short.bam', 'long.bam', 'short.bam']
    args.keepOverBounds = False
    run_table('history 7', args)
    run_table('history 8 (identical rerun)', args)

    # --- degenerate bin sizes / missing attributes --------------------------
    for bin_size, increment in ((0, None), (0, 5), (0, 0), (5, 0), (-5, None),
                                (-5, 5), (5, -5), (10, 2.5), (2.5, None),
                                (10, 10.0), (np.int64(10), None),
                                ('10', None), (True, None)):
        for keep in (False, True):
            run_table(f'degenerate bin={bin_size!r} s={increment!r} keep={keep}',
                      default_args(alignmentfiles=['short.bam'], bin=bin_size,
                                   sliding=increment, keepOverBounds=keep))
    incomplete = default_args(alignmentfiles=['othertags.bam'], bin=10,
                              binTag='QQ')
    del incomplete.keepOverBounds
    run_table('no keepOverBounds attribute, nothing to bin', incomplete)
    incomplete = default_args(alignmentfiles=['othertags.bam'], bin=10,
                              binTag='XX')
    del incomplete.keepOverBounds
    run_table('no keepOverBounds attribute', incomplete)

    # --- written files --------------------------------------------------------
    outputs = ['table.csv', 'table.pickle', 'table.pickle.gz', 'table.tsv',
               os.path.join('missing_directory', 'table.csv')]
    for n, output in enumerate(outputs):
        for bulk in (False, True):
            for bin_size, increment in ((10, None), (10, 5)):
                if os.path.exists(output):
                    os.remove(output)
                run_table(f'write {output} bulk={bulk} bin={bin_size} s={increment}',
                          default_args(alignmentfiles=['exhaustive.bam', 'weights.bam'],
                                       bin=bin_size, sliding=increment, o=output,
                                       bulk=bulk, blacklist='blacklist.bed'),
                          return_df=False)
                record(f'written {output} {bulk} {bin_size} {increment}',
                       file_digest(output))

    # --- bed file mode and plain (unbinned) tables still behave ---------------
    with open('regions.bed', 'w') as handle:
        handle.write('chr1\t0\t10\tfirst\nchr1\t10\t20\tsecond\n'
                     'chr2\t0\t37\twhole\nchr1\t5.0\t15.0\toverlap\n')
    for kwargs in (dict(bedfile='regions.bed'),
                   dict(bedfile='regions.bed', contig='chr1'),
                   dict(bedfile='regions.bed', joinedFeatureTags='reference_name,SM'),
                   dict(bedfile='regions.bed', bin=10),
                   dict(), dict(joinedFeatureTags='reference_name,DS'),
                   dict(joinedFeatureTags=None, featureTags='DS'),
                   dict(joinedFeatureTags=None, featureTags='DS,SM',
                        splitFeatures=True)):
        run_table(f'other modes {sorted(kwargs.items())}',
                  default_args(alignmentfiles=['exhaustive.bam', 'weights.bam'],
                               **kwargs))

    # --- assignReads directly, on one read and an existing table --------------
    import collections
    with pysam.AlignmentFile('exhaustive.bam') as handle:
        some_reads = [read for read in handle][::7]
        lengths = {r: handle.get_reference_length(r) for r in handle.references}
    table = collections.defaultdict(collections.Counter)
    for keep, bin_size, increment in ((False, 10, 10), (True, 10, 5),
                                      (False, 7, 1), (False, 60, 60)):
        args = default_args(bin=bin_size, sliding=increment,
                            keepOverBounds=keep)
        args.ref_lengths = lengths
        returned = [call(b2c.assignReads, read, table, args, True,
                         ['reference_name', 'DS'], ['SM'])
                    for read in some_reads]
        record(f'assignReads {keep} {bin_size} {increment}',
               repr(returned) + repr([(cell, list(counter.items()))
                                      for cell, counter in table.items()]))
    args = default_args(bin=10, sliding=10)
    args.ref_lengths = {'chr2': 37}   # chr1 is not known
    returned = [call(b2c.assignReads, read, table, args, True,
                     ['reference_name', 'DS'], ['SM']) for read in some_reads]
    record('assignReads unknown contig',
           repr(returned) + repr([(cell, list(counter.items()))
                                  for cell, counter in table.items()]))
    args = default_args(bin=10, sliding=10)   # ref_lengths never set
    returned = [call(b2c.assignReads, read, table, args, True,
                     ['reference_name', 'DS'], ['SM']) for read in some_reads]
    record('assignReads no ref_lengths',
           repr(returned) + repr([(cell, list(counter.items()))
                                  for cell, counter in table.items()]))
    plain = collections.defaultdict(dict)     # a table without default zero
    args = default_args(bin=10, sliding=10)
    args.ref_lengths = lengths
    record('assignReads plain dict table',
           repr([call(b2c.assignReads, read, plain, args, True,
                      ['reference_name', 'DS'], ['SM'])
                 for read in some_reads[:3]]) + repr(dict(plain)))


def main():
    start_directory = os.getcwd()
    workdir = tempfile.mkdtemp(prefix='demo_same_C10_')
    try:
        direct_helper_checks()
        entry_point_checks(workdir)
    finally:
        os.chdir(start_directory)
        shutil.rmtree(workdir, ignore_errors=True)
    print(f'{N_RECORDS} observations recorded')
    print(DIGEST.hexdigest())


if __name__ == '__main__':
    main()
