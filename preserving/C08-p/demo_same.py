#!/usr/bin/env python3
"""Differential script for the C08 code paths (region tiling, ownership filter, job chunking,
job result collection). Prints a deterministic sha256 digest over all outputs as last line."""
import hashlib
import io
import itertools
import os
import random
import sys
import tempfile
import contextlib

HERE = os.path.dirname(os.path.abspath(__file__))
sys.path.insert(0, HERE)
os.chdir(HERE)

import pysam
from singlecellmultiomics.bamProcessing.bamBinCounts import blacklisted_binning, blacklisted_binning_contigs, fill_range
from singlecellmultiomics.utils.binning import bp_chunked
from singlecellmultiomics.universalBamTagger import tagging
from singlecellmultiomics.universalBamTagger.tagging import run_tagging_task, run_tagging_tasks, generate_tasks, write_job_gen_to_bed
from singlecellmultiomics.molecule import MoleculeIterator, NlaIIIMolecule, CHICMolecule
from singlecellmultiomics.fragment import NlaIIIFragment, CHICFragment

digest = hashlib.sha256()
n_cases = 0


def emit(*values):
    global n_cases
    n_cases += 1
    digest.update((repr(values) + '\n').encode())
    if os.environ.get('DEMO_DUMP'):
        with open(os.environ['DEMO_DUMP'], 'a') as dump:
            dump.write(repr(values) + '\n')


def outcome(f):
    try:
        return ('ok', f())
    except Exception as e:  # exception type and message are part of the behaviour
        return ('raised', type(e).__name__, str(e))


# ---------------------------------------------------------------- A: blacklisted_binning
rng = random.Random(8)
fixed = [
    (0, 2000, 100, None, None), (0, 2000, 100, [], 50), (0, 2000, 100, [(0, 10)], 50),
    (0, 2000, 100, [(1990, 2000)], 50), (0, 2000, 100, [(0, 2000)], 50), (0, 2000, 100, [(500, 500)], 0),
    (0, 2000, 3000, [(500, 600)], 1000), (0, 2000, 1, [(3, 1995)], 2), (0, 0, 10, None, 5), (0, 1, 10, None, 5),
    (0, 10, 10, None, 0), (0, 11, 10, None, 1), (0, 9, 10, None, 1), (5, 5, 1, [(5, 6)], 1),
    (100, 1100, 333, [(90, 120), (110, 200), (1000, 5000)], 40), (0, 1000, 7, [(10, 20), (20, 30), (30, 31)], 5),
    (0, 1000, 0, None, 5), (0, 1000, 0, [(0, 1000)], 5), (0, 1000, -10, None, 5), (0, 1000, -10, [(400, 600)], None),
    (0, 1000, 10.0, None, 5), (0, 1000, 100, [(600, 700), (100, 200)], 30), (0, 1000, 100, [(600, 700), ], 30),
    (0, 1000, 100, [(-50, 20), (980, 1200)], 30), (0, 1000, 100, [(1000, 1100)], 30), (0, 1000, 100, [(-10, 0)], 30),
    (0, 1000, 1000, None, 10 ** 9), (0, 1000, 999, None, 1), (0, 1000, 1001, None, 1), (0, 1000, 500, None, None),
]
for case in fixed:
    emit('A', case, outcome(lambda: list(blacklisted_binning(*case))))

for _ in range(400):
    start = rng.choice([0, 0, 0, rng.randint(0, 500)])
    end = start + rng.choice([0, 1, 2, rng.randint(1, 50), rng.randint(1, 5000), rng.randint(1, 10 ** 6)])
    bin_size = rng.choice([1, 2, 3, 10, 100, 999, 1000, rng.randint(1, 5000), rng.randint(1, 2 * 10 ** 6)])
    if bin_size < 4 and end - start > 20000:
        end = start + 20000
    bl = []
    for _ in range(rng.choice([0, 0, 1, 2, 3, 6])):
        s = rng.randint(start - 20, max(start, end) + 20)
        bl.append((s, s + rng.choice([0, 1, rng.randint(1, 50), rng.randint(1, max(2, (end - start) // 2 + 1))])))
    if rng.random() < 0.7:
        bl.sort()
    blacklist = rng.choice([None, bl, bl])
    fragment_size = rng.choice([None, 0, 1, 10, 500, bin_size, 10 ** 7])
    case = (start, end, bin_size, blacklist, fragment_size)
    emit('A', case, outcome(lambda: list(blacklisted_binning(*case))))

# contig level tiling and chunking in jobs, as used by the tagger
for bin_size, fragment_size, bp_per_job in [(50_000_000, 1000, 100_000_000), (999_999_999, 500, 10_000_000),
                                            (30_000_000, 0, 30_000_000), (17_000_001, 5000, 1)]:
    for whitelist in (None, ['chr1'], ['chr2', 'chrM', 'nope'], []):
        regions = list(blacklisted_binning_contigs('./data/mini_nla_test.bam', bin_size, fragment_size,
                                                   contig_whitelist=whitelist))
        emit('A-contigs', bin_size, fragment_size, whitelist, regions)
        emit('A-jobs', list(bp_chunked(iter(regions), bp_per_job)))
    emit('A-contigs-nofrag', list(blacklisted_binning_contigs([('a', 1000), ('b', 0), ('c', 1)], 300, None)))

# ---------------------------------------------------------------- B: bp_chunked
for _ in range(150):
    n = rng.choice([0, 1, 2, 5, 30])
    jobs = []
    for _ in range(n):
        s = rng.randint(0, 1000)
        jobs.append(('c', s, s + rng.choice([0, 1, 10, 100, -5]), s - 3, s + 200))
    per_job = rng.choice([0, 1, 10, 100, 150, 10 ** 6])
    emit('B', jobs, per_job, outcome(lambda: list(bp_chunked(iter(jobs), per_job))))
emit('B', outcome(lambda: list(bp_chunked([('c', 1)], 10))))
emit('B', outcome(lambda: list(bp_chunked([('c', 1, 5), ('d', 9, 2, 'x')], 4))))


# ---------------------------------------------------------------- C: run_tagging_task with synthetic molecules
class FakeFragment:
    def __init__(self, site, rg):
        self.site = site
        self.rg = rg

    def get_site_location(self):
        return self.site

    def get_read_group(self, with_attr_dict=False):
        if with_attr_dict:
            return self.rg, {'ID': self.rg, 'LB': 'lib'}
        return self.rg


class FakeMolecule:
    def __init__(self, name, fragments):
        self.name = name
        self.fragments = fragments
        self.meta = {}
        self.log = []

    def __iter__(self):
        return iter(self.fragments)

    def set_meta(self, key, value):
        self.meta[key] = value

    def write_tags(self):
        self.log.append('tags')

    def write_pysam(self, output, **kwargs):
        output.append((self.name, self.meta.get('ix'), tuple(self.log), tuple(sorted(kwargs.items()))))


class FakeIterator:
    molecules = []
    calls = []

    def __init__(self, alignments, contig=None, start=None, end=None, progress_callback_function=None, **kwargs):
        FakeIterator.calls.append((contig, start, end, tuple(sorted(kwargs))))
        self.cb = progress_callback_function

    def __iter__(self):
        for i, m in enumerate(FakeIterator.molecules):
            self.cb(i, self, None)
            yield m


class Prefetchable:
    def __init__(self, name):
        self.name = name

    def prefetch(self, contig, start, end):
        return f'{self.name}:{contig}:{start}:{end}'


def make_molecules(rng, contig, start, end, fetch_start, fetch_end):
    anchors = [x for x in (start, end, fetch_start, fetch_end) if isinstance(x, int)] or [100]
    positions = sorted({a + d for a in anchors for d in (-2, -1, 0, 1)} | {0})
    sites = [None, (None, 5), (None, None)] + [(c, p) for c in (contig, 'other', 'chr1') for p in positions]
    molecules = []
    for j, site in enumerate(sites):
        frags = [FakeFragment(site, f'rg{j % 3}')]
        if j % 4 == 0:
            frags.insert(0, FakeFragment(None, 'rgN'))  # first fragment without a site
        if j % 5 == 0:
            frags.append(FakeFragment(('other', 10 ** 9), 'rgX'))  # later fragments are not considered
        molecules.append(FakeMolecule(f'm{j}', frags))
    molecules.append(FakeMolecule('empty', []))
    rng.shuffle(molecules)
    return molecules


values = {'contig': [None, 'chr1'], 'start': [None, 0, 100], 'end': [None, 200], 'fetch_start': [None, 0, 90],
          'fetch_end': [None, 150, 200, 260]}
for combo in itertools.product(*values.values()):
    region = dict(zip(values.keys(), combo))
    for read_groups, consensus_mode, enable_prefetch in [(None, None, True), ({}, 'majority', False), ({'rg1': {'ID': 'pre'}}, 'bogus', True)]:
        FakeIterator.molecules = make_molecules(rng, **region)
        FakeIterator.calls = []
        out = []
        it_args = {'molecule_class_args': {'features': Prefetchable('F'), 'mappability_reader': Prefetchable('M'), 'x': 1},
                   'fragment_class_args': {'umi_hamming_distance': 1}, 'yield_invalid': True}
        res = outcome(lambda: run_tagging_task('alignments', out, molecule_iterator_class=FakeIterator,
                                               molecule_iterator_args=it_args, read_groups=read_groups,
                                               consensus_mode=consensus_mode, enable_prefetch=enable_prefetch,
                                               no_source_reads=True, **region))
        if res[0] == 'ok':
            res = ('ok', res[1]['total_molecules_written'], sorted(res[1]))
        emit('C', combo, consensus_mode, res, out, read_groups, FakeIterator.calls, repr(it_args['molecule_class_args']['x']))

# timeouts
for timeout_time in (None, 0, -1, 1e9):
    FakeIterator.molecules = make_molecules(rng, 'chr1', 0, 200, 0, 260)
    out = []
    res = outcome(lambda: run_tagging_task('a', out, contig='chr1', start=0, end=200, fetch_start=0, fetch_end=260,
                                           molecule_iterator_class=FakeIterator, timeout_time=timeout_time))
    emit('C-timeout', timeout_time, res[0], res[1] if res[0] == 'raised' else res[1]['total_molecules_written'], len(out))
emit('C-assert', outcome(lambda: run_tagging_task(None, [], molecule_iterator_class=FakeIterator)),
     outcome(lambda: run_tagging_task('a', None, molecule_iterator_class=FakeIterator)),
     outcome(lambda: run_tagging_task('a', [])))


# ---------------------------------------------------------------- D: real libraries, tiled
def bam_records(path):
    records = []
    with pysam.AlignmentFile(path) as f:
        header = f.header.to_dict()
        for r in f.fetch(until_eof=True):
            tags = sorted((k, repr(v)) for k, v in r.get_tags())
            records.append((r.query_name, r.flag, r.reference_name, r.reference_start, r.cigarstring, r.is_read2, tuple(tags)))
    return sorted(records), sorted(rg.get('ID') for rg in header.get('RG', []))


def tiling(contig, lo, hi, bin_size, margin):
    return [(contig, s, e, max(lo, s - margin), min(hi, e + margin)) for s, e in fill_range(lo, hi, bin_size)]


libraries = [
    ('./data/mini_nla_test.bam', 'chr1', 164834000, 164836000,
     {'molecule_class': NlaIIIMolecule, 'fragment_class': NlaIIIFragment,
      'molecule_class_args': {'umi_hamming_distance': 1}, 'fragment_class_args': {'umi_hamming_distance': 1, 'allow_cycle_shift': True},
      'yield_invalid': True, 'yield_overflow': True, 'every_fragment_as_molecule': False}),
    ('./data/chic_test_region.bam', '8', 57148000, 57150000,
     {'molecule_class': CHICMolecule, 'fragment_class': CHICFragment,
      'molecule_class_args': {'umi_hamming_distance': 1}, 'fragment_class_args': {'umi_hamming_distance': 1},
      'yield_invalid': True, 'yield_overflow': True, 'every_fragment_as_molecule': False}),
]

with tempfile.TemporaryDirectory() as tmp:
    for path, contig, lo, hi, it_args in libraries:
        iteration_args = {'molecule_iterator_args': it_args, 'molecule_iterator_class': MoleculeIterator}
        layouts = [
            ('serial-contig', [[(contig, None, None, None, None)], [('*', None, None, None, None)]]),
            ('one-bin', [tiling(contig, lo, hi, hi - lo, 0)]),
            ('bin-no-fetch', [[(contig, lo, hi, None, None)]]),
        ]
        for bin_size, margin, per_job in [(100, 1000, 300), (37, 500, 37), (250, 2000, 10 ** 9), (1, 1000, 50),
                                          (500, 0, 500), (64, 10, 200), (1000, 400, 1)]:
            if bin_size == 1:  # single base bins only around the reads
                first = {'chr1': 164834700, '8': 57149000}[contig]
                bins = tiling(contig, first, first + 40, 1, margin)
            else:
                bins = tiling(contig, lo, hi, bin_size, margin)
            layouts.append((f'tiles-{bin_size}-{margin}-{per_job}', list(bp_chunked(iter(bins), per_job))))

        for name, job_gen in layouts:
            bed_path = os.path.join(tmp, 'jobs.bed' + ('.gz' if len(name) % 2 else ''))
            if 'tiles' in name:
                write_job_gen_to_bed(job_gen, bed_path)
                import gzip
                with (gzip.open(bed_path, 'rt') if bed_path.endswith('.gz') else open(bed_path)) as f:
                    emit('D-bed', name, f.read())
            tasks = list(generate_tasks(path, tmp, job_gen, iteration_args, {}, None))
            emit('D-tasks', name, [[sorted((k, repr(v)) for k, v in t.items() if k not in ('molecule_iterator_args', 'molecule_iterator_class'))
                                    for t in task[1]] for task in tasks])
            per_job = []
            produced = []
            for task in rng.sample(tasks, len(tasks)):  # completion order does not matter
                with contextlib.redirect_stdout(io.StringIO()) as captured:
                    bam, meta = run_tagging_tasks(task)
                starts = tuple(t['start'] for t in task[1])
                if bam is None:
                    per_job.append((starts, None, meta, captured.getvalue().replace(tmp, 'TMP')[:0]))
                    continue
                records, rgs = bam_records(bam)
                produced.extend(records)
                per_job.append((starts, len(records), meta['total_molecules'], len(meta['timeout_tasks']), rgs))
                os.remove(bam)
                os.remove(bam + '.bai')
            print('D', path, name, len(tasks), len(produced), sum(1 for x in per_job if x[1] is not None))
            emit('D', path, name, sorted(per_job, key=repr), sorted(produced))
            emit('D-leftover', sorted(x for x in os.listdir(tmp) if x.endswith('.bam')))

    # ------------------------------------------------------------ E: complete command line runs
    import singlecellmultiomics.universalBamTagger.bamtagmultiome as tm
    tm.sleep = lambda seconds: None  # skip the waiting before removal of the temp folder
    commands = [
        ('./data/mini_nla_test.bam', '-method nla --allow_cycle_shift'),
        ('./data/mini_nla_test.bam', '-method nla --allow_cycle_shift --multiprocess -tagthreads 1'),
        ('./data/mini_nla_test.bam', '-method nla --allow_cycle_shift --multiprocess -tagthreads 3'),
        ('./data/mini_nla_test.bam', '-method nla --allow_cycle_shift --multiprocess -tagthreads 2 --one_contig_per_process'),
        ('./data/mini_nla_test.bam', '-method nla --no_rejects --multiprocess -tagthreads 2 -skip_contig chr2,chr3 -jobbed JOBBED'),
        ('./data/chic_test_region.bam', '-method chic'),
        ('./data/chic_test_region.bam', '-method chic --multiprocess -tagthreads 2 -contig 8'),
        ('./data/chic_test_region.bam', '-method chic --multiprocess -tagthreads 3 -contig 8 -jobbed JOBBED'),
        ('./data/chic_test_region.bam', '-method chic --multiprocess -tagthreads 4 --one_contig_per_process'),
    ]
    for i, (path, options) in enumerate(commands):
        out_path = os.path.join(tmp, f'out_{i}.bam')
        jobbed = os.path.join(tmp, f'jobs_{i}.bed')
        cmd = f'{path} {options} -temp_folder {tmp} -o {out_path}'.replace('JOBBED', jobbed)
        with contextlib.redirect_stdout(io.StringIO()):
            res = outcome(lambda: tm.run_multiome_tagging_cmd(cmd.split(' ')))
        records, rgs = bam_records(out_path) if os.path.exists(out_path) else ([], None)
        # mi holds the per run molecule identifier
        records = [r[:-1] + (tuple(t for t in r[-1] if t[0] != 'mi'),) for r in records]
        bed = open(jobbed).read() if os.path.exists(jobbed) else None
        print('E', options, res, len(records), None if bed is None else len(bed.splitlines()))
        emit('E', path, options, res, len(records), records, rgs, bed,
             len([x for x in os.listdir(tmp) if x.startswith('scmo_')]))

    # ------------------------------------------------------------ F: region tiling API, with and without worker pool
    for i, (use_pool, n_threads, fragment_size, bp_per_job, bp_per_segment, one_contig) in enumerate([
            (False, None, 1000, 50_000_000, 10_000_000, False),
            (True, 2, 500, 1, 20_000_000, False),
            (True, 5, 2000, 10 ** 9, 164_834_900, False),
            (True, 8, 1000, 30_000_000, 7_000_001, False),
            (True, 3, 1000, 30_000_000, 7_000_001, True)]):
        path, contig, lo, hi, it_args = libraries[0]
        out_path = os.path.join(tmp, f'api_{i}.bam')
        jobbed = None if one_contig else os.path.join(tmp, f'api_jobs_{i}.bed')
        with contextlib.redirect_stdout(io.StringIO()):
            res = outcome(lambda: tm.tag_multiome_multi_processing(
                path, out_path, molecule_iterator_args=dict(it_args), fragment_size=fragment_size, bp_per_job=bp_per_job,
                bp_per_segment=bp_per_segment, temp_folder_root=tmp, use_pool=use_pool, n_threads=n_threads,
                one_contig_per_process=one_contig, additional_args={}, job_bed_file=jobbed))
        records, rgs = bam_records(out_path) if os.path.exists(out_path) else ([], None)
        records = [r[:-1] + (tuple(t for t in r[-1] if t[0] != 'mi'),) for r in records]
        bed = open(jobbed).read() if jobbed and os.path.exists(jobbed) else None
        print('F', i, res, len(records), None if bed is None else len(bed.splitlines()))
        emit('F', i, res, len(records), records, rgs, bed, len([x for x in os.listdir(tmp) if x.startswith('scmo_')]))

print(f'{n_cases} cases')
print(digest.hexdigest())
