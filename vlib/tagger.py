"""Helpers to run the real tagger (bamtagmultiome) in-process with monitors attached.

* the 5 second sleep before temp-folder removal is replaced by a no-op (module attribute bamtagmultiome.sleep)
* in --multiprocess runs the function handed to Pool.imap_unordered is replaced by a module level wrapper
  (picklable by reference, workers are forked so they have it) that injects a seeded delay per job and appends
  one JSON line per job to an O_APPEND event file: which records each job wrote and when it finished.
"""
import os
import io
import json
import time
import hashlib
import contextlib

EVENT_ENV = 'SCMO_JOB_EVENTS'
DELAY_ENV = 'SCMO_JOB_DELAY_SEED'


def _orig_run_tagging_tasks():
    from singlecellmultiomics.universalBamTagger import tagging
    return getattr(tagging, '_scmo_orig_run_tagging_tasks', tagging.run_tagging_tasks)


def monitored_run_tagging_tasks(args):
    """runs inside the pool workers"""
    import pysam
    (alignments_path, temp_dir, timeout_time), arglist = args
    seed = os.environ.get(DELAY_ENV)
    key = '|'.join(f"{t.get('contig')}:{t.get('start')}:{t.get('end')}" for t in arglist)
    if seed is not None and seed != 'none':
        h = int(hashlib.sha1(f'{seed}/{key}'.encode()).hexdigest()[:6], 16)
        time.sleep((h % 40) / 400.0)   # 0 .. 0.1 s, decided by the seed and the job identity
    t0 = time.monotonic()
    res = _orig_run_tagging_tasks()(args)
    ev = {'job': key, 'pid': os.getpid(), 'start': t0, 'done': time.monotonic(), 'file': res[0], 'tasks': [
        [t.get('contig'), t.get('start'), t.get('end'), t.get('fetch_start'), t.get('fetch_end')] for t in arglist]}
    if res[0] is not None and os.environ.get(EVENT_ENV):
        recs = []
        try:
            with pysam.AlignmentFile(res[0]) as f:
                for a in f.fetch(until_eof=True):
                    recs.append([a.query_name, 1 if a.is_read2 else 0, a.get_tag('DS') if a.has_tag('DS') else None, a.reference_name])
        except Exception as ex:
            ev['read_error'] = repr(ex)
        ev['records'] = recs
    path = os.environ.get(EVENT_ENV)
    if path:
        fd = os.open(path, os.O_WRONLY | os.O_APPEND | os.O_CREAT, 0o644)
        try:
            os.write(fd, (json.dumps(ev) + '\n').encode())
        finally:
            os.close(fd)
    return res


EJECT_PATCHED = [0]


@contextlib.contextmanager
def instrumented(event_file=None, delay_seed=None, eject_every=None):
    from singlecellmultiomics.universalBamTagger import bamtagmultiome as btm
    from singlecellmultiomics.universalBamTagger import tagging
    from singlecellmultiomics.molecule import iterator as _it
    # The command line cannot change how often the molecule buffer is checked for ejection (every 10,000 fragments): with the small
    # libraries of the harness the ejection code would never run on this path. The interval is a tuning constant (C07: the result does not
    # depend on it), so the harness may shrink it; forked workers inherit the wrapper.
    old_init = _it.MoleculeIterator.__init__
    if eject_every is not None:
        def patched_init(self_, *a, **k):
            old_init(self_, *a, **k)
            if getattr(self_, 'check_eject_every', None) == 10_000:
                self_.check_eject_every = eject_every
                EJECT_PATCHED[0] += 1
        _it.MoleculeIterator.__init__ = patched_init
    old_sleep = btm.sleep
    old_run = btm.run_tagging_tasks
    tagging._scmo_orig_run_tagging_tasks = tagging.run_tagging_tasks if not hasattr(tagging, '_scmo_orig_run_tagging_tasks') else tagging._scmo_orig_run_tagging_tasks
    btm.sleep = lambda s: None
    btm.run_tagging_tasks = monitored_run_tagging_tasks
    old_env = {k: os.environ.get(k) for k in (EVENT_ENV, DELAY_ENV)}
    if event_file:
        os.environ[EVENT_ENV] = event_file
    else:
        os.environ.pop(EVENT_ENV, None)
    os.environ[DELAY_ENV] = str(delay_seed) if delay_seed is not None else 'none'
    try:
        yield btm
    finally:
        _it.MoleculeIterator.__init__ = old_init
        btm.sleep = old_sleep
        btm.run_tagging_tasks = old_run
        for k, v in old_env.items():
            if v is None:
                os.environ.pop(k, None)
            else:
                os.environ[k] = v


def run_cli(cmd, event_file=None, delay_seed=None, capture=True, eject_every=None):
    """run_multiome_tagging_cmd in this process. Returns (exception or None, captured text)"""
    out = io.StringIO()
    exc = None
    with instrumented(event_file, delay_seed, eject_every) as btm:
        try:
            if capture:
                with contextlib.redirect_stdout(out), contextlib.redirect_stderr(out):
                    btm.run_multiome_tagging_cmd(cmd)
            else:
                btm.run_multiome_tagging_cmd(cmd)
        except SystemExit as ex:
            exc = ex
        except Exception as ex:
            exc = ex
    if exc is not None:
        # Drop the traceback: its frames keep pysam handles opened with htslib threads alive. If such garbage is collected
        # inside a later forked pool worker, hts_close waits for threads that do not exist there and the worker dead-locks.
        import traceback
        traceback.clear_frames(exc.__traceback__)
        exc.__traceback__ = None
        exc.__context__ = None
    reap_pools()
    import gc
    gc.collect()
    return exc, out.getvalue()


def reap_pools():
    """The tagger never joins its Pool (and leaks it when a worker raises). A leaked pool keeps helper threads alive in
    this process; forking the next pool while they hold locks can dead-lock the child. Terminate whatever is left."""
    import gc
    import multiprocessing.pool
    for o in gc.get_objects():
        try:
            if isinstance(o, multiprocessing.pool.Pool):
                o.terminate()
                o.join()
        except Exception:
            pass


def read_events(event_file):
    evs = []
    if event_file and os.path.exists(event_file):
        with open(event_file) as f:
            for line in f:
                line = line.strip()
                if line:
                    evs.append(json.loads(line))
    return evs


def load_records(path):
    """all records of a BAM as comparable tuples + header dict; also verifies sort order and index"""
    import pysam
    info = {'sorted': True, 'index': False, 'so': None, 'error': None}
    recs = []
    try:
        with pysam.AlignmentFile(path) as f:
            hdr = f.header.to_dict()
            info['so'] = hdr.get('HD', {}).get('SO')
            try:
                info['index'] = f.check_index()
            except Exception:
                info['index'] = False
            last = None
            for a in f.fetch(until_eof=True):
                key = (a.reference_id if a.reference_id >= 0 else 1 << 30, a.reference_start)
                if last is not None and key < last:
                    info['sorted'] = False
                last = key
                recs.append(a)
    except Exception as ex:
        info['error'] = repr(ex)
        hdr = {}
    return recs, hdr, info
