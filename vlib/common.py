"""Shared machinery of the runtime-monitoring checks.

A property module (vlib/props/cNN.py) provides

    PROPERTY, LEVEL, RULE, ASSUMPTIONS, MIN_NONTRIVIAL (dict tier->int),
    REQUIRED_MONITORS (list of counter names that must be >0),
    gen_cases(tier, seed)  -> list of JSON-able case dicts
    run_case(case)         -> dict(evals=int, sigs=[str..] and/or distinct=int,
                                   violations=[{mech,msg,witness}], mon={name:int},
                                   sample=<json-able or None>)

The parent process shards the case list over subprocesses (never a Pool: a dying
child must not hang the check), aggregates, classifies violations against
known_findings.json, writes the evidence file and prints the verdict lines.

Exit codes: 0 held (KNOWN-FINDING lines allowed), 1 VIOLATION, 2 INCONCLUSIVE.
"""
import os
import sys
import json
import time
import random
import shutil
import hashlib
import tempfile
import importlib
import traceback
import subprocess

VERIF = os.path.dirname(os.path.dirname(os.path.abspath(__file__)))
PY = '/venv/bin/python'
REPO = os.environ.get('SCMO_REPO', '/repo')
GUARD = 'SCMO_VERIF'


def rng(*parts):
    return random.Random('/'.join(str(p) for p in parts))


def sha(*parts):
    h = hashlib.sha1()
    for p in parts:
        h.update(repr(p).encode())
        h.update(b'|')
    return h.hexdigest()[:16]


def scratch_root():
    base = os.environ.get('SCMO_SCRATCH')
    if base:
        os.makedirs(base, exist_ok=True)
        return base
    return tempfile.gettempdir()


class Scratch:
    """Per-case scratch directory, always removed."""

    def __init__(self, tag='case'):
        self.tag = tag

    def __enter__(self):
        self.path = tempfile.mkdtemp(prefix=f'scmo_{self.tag}_', dir=scratch_root())
        return self.path

    def __exit__(self, *a):
        shutil.rmtree(self.path, ignore_errors=True)


class Acc:
    """Accumulator a run_case fills in."""

    def __init__(self):
        self.evals = 0
        self.sigs = set()
        self.distinct = 0
        self.violations = []
        self.mon = {}
        self.sample = None
        self.notes = []

    def count(self, name, n=1):
        self.mon[name] = self.mon.get(name, 0) + n

    def violate(self, mech, msg, witness=None):
        if len(self.violations) < 25:
            self.violations.append({'mech': mech, 'msg': str(msg)[:2000], 'witness': witness})
        else:
            self.count('violations_truncated')

    def result(self):
        return {'evals': self.evals, 'sigs': sorted(self.sigs), 'distinct': self.distinct,
                'violations': self.violations, 'mon': self.mon, 'sample': self.sample}


def load_prop(pid):
    return importlib.import_module(f'vlib.props.{pid.lower()}')


def load_known(pid):
    path = os.path.join(VERIF, 'known_findings.json')
    known, fixed = {}, {}
    if os.path.exists(path):
        for e in json.load(open(path)).get('findings', []):
            if e.get('property') != pid:
                continue
            if e.get('state') == 'known':
                known[e['mechanism']] = e
            elif e.get('state') == 'fixed':
                fixed[e['mechanism']] = e
    return known, fixed


# --------------------------------------------------------------------------- shard worker

def shard_main(argv):
    pid, tier, seed, idx, nsh, out = argv[0], argv[1], int(argv[2]), int(argv[3]), int(argv[4]), argv[5]
    mod = load_prop(pid)
    cases_file = os.path.join(os.path.dirname(out), 'cases.json')
    # the parent generates the case list once; the shards run under different PYTHONHASHSEED values and must agree on it
    cases = json.load(open(cases_file)) if os.path.exists(cases_file) else mod.gen_cases(tier, seed)
    mine = [(i, c) for i, c in enumerate(cases) if i % nsh == idx]
    results = []
    budget = float(os.environ.get('SCMO_SHARD_BUDGET', '0') or 0)
    t0 = time.time()
    skipped = 0
    for i, c in mine:
        if budget and time.time() - t0 > budget:
            skipped += 1
            continue
        t1 = time.time()
        try:
            r = mod.run_case(c)
            if isinstance(r, Acc):
                r = r.result()
        except Exception:
            r = {'evals': 0, 'sigs': [], 'distinct': 0, 'mon': {}, 'sample': None,
                 'violations': [], 'harness_error': traceback.format_exc()[-3000:]}
        r['case_index'] = i
        r['case'] = c
        r['hashseed'] = os.environ.get('PYTHONHASHSEED')
        r['wall'] = time.time() - t1
        results.append(r)
    with open(out, 'w') as f:
        json.dump({'results': results, 'skipped_for_budget': skipped}, f)


# --------------------------------------------------------------------------- parent

def write_replay(pid, seed, case, viol, hashseed=None):
    os.makedirs(os.path.join(VERIF, 'replays'), exist_ok=True)
    name = f"{pid}-{viol['mech']}-{sha(case)}.json"
    name = ''.join(ch if ch.isalnum() or ch in '-_.' else '_' for ch in name)
    path = os.path.join(VERIF, 'replays', name)
    with open(path, 'w') as f:
        json.dump({'property': pid, 'seed': seed, 'hashseed': hashseed, 'case': case, 'violation': viol}, f, indent=1, default=str)
    return path


def run_check(pid, tier, seed, replay=None):
    t0 = time.time()
    os.environ[GUARD] = '1'
    os.environ.setdefault('PYTHONHASHSEED', '0')
    os.environ['PYTHONDONTWRITEBYTECODE'] = '1'
    mod = load_prop(pid)
    known, fixed = load_known(pid)
    runroot = tempfile.mkdtemp(prefix=f'scmo_verif_{pid}_', dir=scratch_root())
    env = dict(os.environ)
    env['SCMO_SCRATCH'] = runroot
    env['PYTHONPATH'] = VERIF + os.pathsep + env.get('PYTHONPATH', '')
    env['TMPDIR'] = runroot
    all_results = []
    harness_errors = []
    timed_out = 0
    skipped = 0
    try:
        if replay:
            rp = json.load(open(replay))
            if rp.get('hashseed') not in (None, os.environ.get('PYTHONHASHSEED')) and not os.environ.get('SCMO_REPLAY_REEXEC'):
                # the case ran under this string-hash seed (set iteration order is part of the schedule): restart the interpreter with it
                shutil.rmtree(runroot, ignore_errors=True)
                os.execve(PY, [PY, '-c', 'from vlib.common import main; main()'] + sys.argv[1:],
                          dict(os.environ, PYTHONHASHSEED=str(rp['hashseed']), SCMO_REPLAY_REEXEC='1'))
            case = rp['case']
            seed = rp.get('seed', seed)
            os.environ['SCMO_SCRATCH'] = runroot
            r = mod.run_case(case)
            if isinstance(r, Acc):
                r = r.result()
            r['case'] = case
            r['case_index'] = -1
            all_results.append(r)
        else:
            cases = mod.gen_cases(tier, seed)
            with open(os.path.join(runroot, 'cases.json'), 'w') as f:
                json.dump(cases, f)
            cases = json.load(open(os.path.join(runroot, 'cases.json')))
            nsh = max(1, min(int(os.environ.get('SCMO_JOBS', '16')), len(cases)))
            timeout = getattr(mod, 'SHARD_TIMEOUT', {'quick': 600, 'thorough': 7200})[tier]
            procs = []
            for i in range(nsh):
                out = os.path.join(runroot, f'shard{i}.json')
                log = open(os.path.join(runroot, f'shard{i}.log'), 'w')
                p = subprocess.Popen([PY, '-c', 'import sys; from vlib.common import shard_main; shard_main(sys.argv[1:])',
                                      pid, tier, str(seed), str(i), str(nsh), out],
                                     env=dict(env, PYTHONHASHSEED=str((seed * 1000003 + i * 7919) % (2 ** 32))), cwd=runroot, stdout=log, stderr=subprocess.STDOUT,
                                     start_new_session=True)
                procs.append((p, out, log, i))
            deadline = time.time() + timeout
            for p, out, log, i in procs:
                try:
                    p.wait(timeout=max(1, deadline - time.time()))
                except subprocess.TimeoutExpired:
                    try:
                        os.killpg(p.pid, 9)
                    except Exception:
                        p.kill()
                    p.wait()
                    timed_out += 1
                log.close()
                if os.path.exists(out):
                    d = json.load(open(out))
                    all_results.extend(d['results'])
                    skipped += d.get('skipped_for_budget', 0)
                else:
                    tail = open(log.name).read()[-1500:]
                    harness_errors.append(f'shard {i} produced no result (rc={p.returncode}): {tail}')
    finally:
        shutil.rmtree(runroot, ignore_errors=True)

    evals = 0
    sigs = set()
    distinct = 0
    mon = {}
    samples = []
    viols = []
    for r in all_results:
        evals += r.get('evals', 0)
        sigs.update(r.get('sigs', []))
        distinct += r.get('distinct', 0)
        for k, v in r.get('mon', {}).items():
            mon[k] = mon.get(k, 0) + v
        if r.get('sample') is not None and len(samples) < 5:
            samples.append(r['sample'])
        if r.get('harness_error'):
            harness_errors.append(f"case {r['case_index']}: {r['harness_error']}")
        for v in r.get('violations', []):
            viols.append((r['case'], dict(v, _hashseed=r.get('hashseed'))))
    nontrivial = len(sigs) + distinct

    lines = []
    rc = 0
    new_viol = 0
    seen_known = {}
    seen_new = {}
    for case, v in viols:
        if v['mech'] in known:
            seen_known.setdefault(v['mech'], []).append(v)
        else:
            seen_new.setdefault(v['mech'], []).append((case, v))
    for mech, vs in seen_known.items():
        lines.append(f"KNOWN-FINDING: property={pid} {mech}: {known[mech].get('what', '')} (observed {len(vs)}x this run)")
    for mech, cvs in seen_new.items():
        case, v = cvs[0]
        path = replay or write_replay(pid, seed, case, {k: x for k, x in v.items() if k != '_hashseed'}, v.get('_hashseed'))
        new_viol += len(cvs)
        lines.append(f"VIOLATION property={pid} replay={path}")
        lines.append(f"  mechanism={mech} count={len(cvs)} first: {v['msg'][:600]}")
        rc = 1
    inconclusive = []
    if harness_errors:
        inconclusive.append(f'{len(harness_errors)} harness error(s): {harness_errors[0][-800:]}')
    if timed_out:
        inconclusive.append(f'{timed_out} shard(s) hit the wall-clock watchdog')
    if not replay:
        need = getattr(mod, 'MIN_NONTRIVIAL', {'quick': 2, 'thorough': 2})[tier]
        if nontrivial < need:
            inconclusive.append(f'only {nontrivial} distinct non-trivial cases (< {need})')
        for m in getattr(mod, 'REQUIRED_MONITORS', []):
            if mon.get(m, 0) <= 0:
                inconclusive.append(f'monitor {m} never evaluated')
    if rc == 0 and inconclusive:
        rc = 2
        lines.append(f"INCONCLUSIVE property={pid} reason={' ; '.join(inconclusive)[:1500]}")

    wall = time.time() - t0
    if not replay:
        ev = {
            'property_id': pid, 'tier': tier, 'seed': seed, 'level': mod.LEVEL,
            'coverage': {
                'evaluations': evals,
                'distinct_nontrivial': nontrivial,
                'rule': mod.RULE,
                'samples': samples,
                'monitors': mon,
                'cases_run': len(all_results),
                'string_hash_seeds_observed': sorted(set(str(r.get('hashseed')) for r in all_results)),
                'cases_skipped_for_budget': skipped,
                'exhaustive': bool(getattr(mod, 'EXHAUSTIVE', {}).get(tier, False)),
                'known_findings_observed': {k: len(v) for k, v in seen_known.items()},
                'verdict': {0: 'held on what was observed', 1: 'violated', 2: 'inconclusive'}[rc],
                'inconclusive_reasons': inconclusive,
            },
            'assumptions': list(getattr(mod, 'ASSUMPTIONS', [])),
            'wall_s': round(wall, 2),
            'violations': new_viol,
        }
        os.makedirs(os.path.join(VERIF, 'evidence'), exist_ok=True)
        with open(os.path.join(VERIF, 'evidence', f'{pid}.json'), 'w') as f:
            json.dump(ev, f, indent=1, default=str)
    for l in lines:
        print(l)
    print(f"{pid} tier={tier} seed={seed} cases={len(all_results)} evaluations={evals} "
          f"distinct_nontrivial={nontrivial} violations={new_viol} known={sum(len(v) for v in seen_known.values())} "
          f"wall={wall:.1f}s verdict={['HELD', 'VIOLATED', 'INCONCLUSIVE'][rc]}")
    if mon:
        print('  monitors: ' + ', '.join(f'{k}={v}' for k, v in sorted(mon.items())))
    return rc


def main(argv=None):
    import argparse
    ap = argparse.ArgumentParser()
    ap.add_argument('property')
    ap.add_argument('--tier', default=os.environ.get('VERIF_TIER', 'quick'), choices=['quick', 'thorough'])
    ap.add_argument('--seed', type=int, default=int(os.environ.get('VERIF_SEED', '0') or 0))
    ap.add_argument('--replay')
    a = ap.parse_args(argv)
    sys.exit(run_check(a.property.upper(), a.tier, a.seed, a.replay))
