"""C01 - demultiplexing conserves every read pair (demultiplexed XOR rejected).

Monitors (boundary only): FastqIterator.__next__ (pairs pulled), the two FastqHandle sinks (write calls),
the return value (processedReadPairs, strategyYields), the log handle and - decisive - the files on disk
after close(), parsed with a strict 4-line FASTQ reader. The oracle is an accounting over unique ids.
"""
import os
import collections
import io
import glob
import contextlib
from vlib.common import Acc, rng, Scratch
from vlib.sim import fastq as fq
from vlib.spec import layouts as LY
from vlib.props.c02 import get_env, SinkSpy

PROPERTY = 'C01'
LEVEL = 'exploration'
RULE = ('one selected strategy per run x all 28 registered strategies x paired/single-end input (also single-end input on a paired '
        'strategy and vice versa) x rejects handle on/off x joint / one-file-per-cell output (maxHandles 2..5, prune interval forced small) '
        'x maxReadPairs in {None,1,N-1,N,N+5} x hamming 0/1; libraries of 40-300 pairs mixing whitelisted, 1/2-mismatch, unknown, truncated and '
        'empty reads, N bases, all phred characters 33..126, headers Illumina (known / unknown / numeric index), 7-field, already demultiplexed '
        'and 3-DEC. Non-trivial = run with >=1 accepted and >=1 rejected pair; distinct = distinct (strategy, configuration, library seed).'
        ' Command-line cases: 1-3 lanes in 1-3 chunk files of unequal size handed over sorted / shuffled / with a duplicate path / as a file list; strategies selected by -use A, -use A,B or autodetection; per-lane jobs (-g n) followed by the glue step.')
ASSUMPTIONS = ['input FASTQ is well formed (4 lines per record, equal seq/qual length, same number of records in both mate files)',
               'library names are short and header-safe (a header over 255 characters is C04\'s loud refusal)',
               'per-cell output is only combined with barcode strategies (the bulk strategy writes plain strings without a cell)']
MIN_NONTRIVIAL = {'quick': 100, 'thorough': 2000}
REQUIRED_MONITORS = ['fault:per_cell_file_open_refused_for_lack_of_descriptors', 'hook:FastqIterator.__next__', 'hook:target.write', 'hook:reject.write', 'files:strict_parsed',
                     'oracle:accepted_ids', 'oracle:rejected_ids', 'config:per_cell', 'config:no_reject_handle', 'config:max_read_pairs', 'config:cli', 'config:cli_multi', 'config:cli_auto', 'config:cli_per_lane_jobs', 'input:filelist', 'input:duplicate', 'input:chunked_lanes', 'input:last_line_without_newline', 'input:fastq_form:crlf', 'input:fastq_form:plusname', 'oracle:pairs_accepted_by_the_strategy_but_refused_at_write_time', 'fault:target_write_refused_every_7th', 'config:cli_strategy_named_twice']
SHARD_TIMEOUT = {'quick': 900, 'thorough': 5400}

HDR_KINDS = ['illumina'] * 8 + ['illumina_unknown_index', 'illumina_numeric_index', 'short7', 'scmo', '3dec']


def gen_cases(tier, seed):
    cases = []
    reps = 8 if tier == 'quick' else 160
    for name in LY.ALL_NAMES:
        for rep in range(reps):
            cases.append({'strategy': name, 'rep': rep, 'seed': seed, 'n': None})
    # the real command line (demux.py run as __main__ in a subprocess) on a generated directory with several lanes
    for j in range(24 if tier == 'quick' else 600):
        cases.append({'kind': 'cli', 'j': j, 'seed': seed})
    return cases


CLI_DRIVER = r'''
import sys, runpy
sys.argv = ['demux.py'] + sys.argv[1:]
import singlecellmultiomics.modularDemultiplexer.demux as m
runpy.run_path(m.__file__, run_name='__main__')
'''


def cli_build_inputs(r, d, name, single, wl, iwl, case_id, acc, input_form=None):
    """Writes a library as the sequencer delivers it (1-3 lanes, each in 1-3 chunk files of unequal size) and decides how the files are handed to
    demux.py. Returns (lib, files as given on the command line, all pairs in input order, files on disk, input form)."""
    lib = 'LIBCLI'
    lanes = r.randint(1, 3)
    all_pairs = []
    files = []
    indir = os.path.join(d, 'fastq')
    os.makedirs(indir)
    rid0 = 0
    chunked = 0
    for lane in range(1, lanes + 1):
        # a lane may be delivered in several chunk files (_001, _002) of unequal size
        for chunk in range(1, r.choice([1, 1, 2, 3]) + 1):
            n = r.choice([7, 20, 40, 80])
            pairs = build_library(r, name, wl, iwl, n, single, case_id, r.choice([41, 93]))
            for p in pairs:
                # ids unique and increasing over lanes and chunks
                p['id'] += rid0
                p['reads'] = [(fq.header(p['hdr'], p['id'], case_id, m, p['index']),) + rd[1:] for m, rd in enumerate(p['reads'])]
            rid0 += n
            paths = [os.path.join(indir, f'{lib}_S1_L00{lane}_R1_00{chunk}.fastq.gz')] + ([] if single else [os.path.join(indir, f'{lib}_S1_L00{lane}_R2_00{chunk}.fastq.gz')])
            fq.write_fastq(paths, pairs, final_newline=r.random() >= 0.25)    # the last line of a file need not end in a newline
            files += paths
            all_pairs += pairs
            chunked += 1 if chunk > 1 else 0
    # how the files reach the command line is not under the tool's control: any order, a path named twice, or a text file listing them
    # (a path repeated INSIDE a file list is not pruned by the tool: the lane then has unequal R1/R2 lists and the tool refuses it loudly -
    # such a list is outside the claim)
    drawn = r.choice(['sorted', 'shuffled', 'duplicate', 'duplicate', 'filelist', 'filelist'])
    input_form = input_form or drawn
    given = list(files)
    if input_form != 'sorted':
        r.shuffle(given)
    if 'duplicate' in input_form:
        given.insert(r.randrange(len(given) + 1), r.choice(given))
    if input_form.startswith('filelist'):
        listing = os.path.join(d, 'fastq_files.txt')
        with open(listing, 'w') as f:
            f.write('\n'.join(given) + '\n')
        given = [listing]
    acc.count('input:' + input_form)
    acc.count('input:chunked_lanes', 1 if chunked else 0)
    files_on_disk, files = files, given
    return lib, files, all_pairs, files_on_disk, input_form, lanes


def run_cli_case(case):
    import subprocess
    from vlib.common import PY
    acc = Acc()
    r = rng(case['seed'], 'C01', 'cli', case['j'])
    name = r.choice([n for n in LY.ALL_NAMES if n not in ('ILLU', 'CHROMC16U12')])
    ends = LY.ends_of(name)
    single = ends == 'se' or (ends == 'any' and r.random() < 0.3)
    k = r.choice([0, 1])
    with Scratch('c01cli') as d:
        wl = fq.load_whitelists(os.path.join(fq.REPO_DEMUX, 'barcodes'))
        iwl = fq.load_whitelists(os.path.join(fq.REPO_DEMUX, 'indices'))
        lib, files, all_pairs, files_on_disk, input_form, lanes = cli_build_inputs(r, d, name, single, wl, iwl, 7700 + case['j'], acc,
                                                                                    input_form=['sorted', 'filelist', 'duplicate', 'shuffled', 'filelist', 'duplicate'][(case['j'] // 4) % 6])
        case_id = 7700 + case['j']
        N = len(all_pairs)
        nopt = r.choice([None, None, 1, N - 1, N, N + 3, r.randint(1, N)])
        norejects = r.random() < 0.3
        scsepf = r.random() < 0.3
        force_per_lane = case['j'] % 4 == 1
        if force_per_lane:
            nopt, scsepf = None, False
        out = os.path.join(d, 'out')
        # how the strategies are selected: one named strategy, two named strategies (each read is offered to every selected
        # strategy), or none named (the autodetection probes the head of the library and selects the best scoring one)
        r.choice([0, 1, 2, 3, 4, 5])   # (keeps the random stream of earlier versions)
        mode = ['use', 'use', 'multi', 'auto'][case['j'] % 4]     # every way of selecting strategies is exercised in every run
        second = None
        if mode == 'multi':
            second = r.choice([n2 for n2 in LY.ALL_NAMES if n2 not in ('ILLU', 'CHROMC16U12', name) and
                               (LY.ends_of(n2) == 'any' or (LY.ends_of(n2) == 'se') == single or (single and LY.ends_of(n2) != 'pe'))] or [None])
            if second is None:
                mode = 'use'
        if mode == 'use':
            use_arg = name
            if case['j'] % 8 == 4:
                use_arg = f'{name},{name}'     # the same strategy named twice (a concatenated configuration): it is one selected strategy
                acc.count('config:cli_strategy_named_twice')
            cmd = files + ['-use', use_arg, '--y', '-o', out, '-hd', str(k)]
        elif mode == 'multi':
            cmd = files + ['-use', f'{name},{second}', '--y', '-o', out, '-hd', str(k)]
        else:
            cmd = files + ['--y', '-o', out, '-hd', str(k), '-dsize', str(r.choice([5, 30, 2000]))]
            if r.random() < 0.5:
                cmd += ['-only_detect_methods', name]
        if nopt is not None:
            cmd += ['-n', str(nopt)]
        if norejects:
            cmd.append('--norejects')
        if scsepf:
            cmd += ['--scsepf', '-fh', str(r.randint(2, 5))]
        if single:
            cmd.append('--se')
        cfg = {'cli': True, 'strategy': name, 'k': k, 'single_end_input': single, 'lanes': lanes, 'N': N, 'n_option': nopt, 'norejects': norejects, 'scsepf': scsepf,
               'selection': mode, 'second_strategy': second, 'input_form': input_form, 'chunk_files': len(files_on_disk),
               'argv': [os.path.basename(a) if a in files or a in files_on_disk else a for a in cmd]}
        acc.count('config:cli')
        acc.count('config:cli_' + mode)
        if scsepf:
            acc.count('config:per_cell')
        if norejects:
            acc.count('config:no_reject_handle')
        if nopt is not None:
            acc.count('config:max_read_pairs')
        drv = os.path.join(d, 'drv.py')
        with open(drv, 'w') as f:
            f.write(CLI_DRIVER)
        # the way a scheduler runs a library: one job per lane (demux.py -g <job number, from 0> <files of the lane>), each writing
        # <job>_TEMP_ files, followed by the glue step that demux.py itself composes: cat <lib>/*_TEMP_x > <lib>/x && rm <lib>/*_TEMP_x
        per_lane_jobs = force_per_lane
        cfg['per_lane_jobs'] = per_lane_jobs
        if per_lane_jobs:
            acc.count('config:cli_per_lane_jobs')
            by_lane = collections.OrderedDict()
            for f_ in files_on_disk:
                by_lane.setdefault(os.path.basename(f_).split('_R')[0], []).append(f_)
            opts = [a for a in cmd if a not in files]
            p = None
            for gid, lane_files in enumerate(by_lane.values()):
                p = subprocess.run([PY, drv] + lane_files + opts + ['-g', str(gid)], capture_output=True, text=True, timeout=600, cwd=d)
                if p.returncode != 0:
                    break
            if p.returncode == 0:
                libdir = os.path.join(out, lib)
                for fn in ['demultiplexedR1.fastq.gz', 'demultiplexedR2.fastq.gz', 'demultiplexing.log'] + ([] if norejects else ['rejectsR1.fastq.gz', 'rejectsR2.fastq.gz']):
                    parts = sorted(glob.glob(os.path.join(libdir, '*_TEMP_' + fn)))
                    if not parts and fn.endswith('R2.fastq.gz') and single:
                        continue
                    with open(os.path.join(libdir, fn), 'wb') as dst:      # `>` truncates the target first
                        for part in parts:
                            with open(part, 'rb') as src:
                                dst.write(src.read())
                    for part in parts:
                        os.remove(part)
        else:
            p = subprocess.run([PY, drv] + cmd, capture_output=True, text=True, timeout=600, cwd=d)
        acc.evals += 1
        wit = {'config': cfg, 'library_head': [(x['id'], x['kind'], x['hk'], x['reads']) for x in all_pairs[:3]]}
        if p.returncode != 0:
            last = [l for l in p.stderr.strip().split('\n') if l.strip()][-1:] or ['']
            exc = last[0].split(':')[0].strip() if ':' in last[0] else 'exit'
            import re as _re
            frames = _re.findall(r'File "[^"]*singlecellmultiomics/([^"]+)", line \d+, in (\S+)', p.stderr)
            where = (os.path.basename(frames[-1][0]) + ':' + frames[-1][1]) if frames else 'unknown'
            acc.violate('cli-failed:' + (exc if exc.isidentifier() else 'exit') + ':' + where, f'demux.py exited {p.returncode}: {p.stderr[-400:]} ({cfg})', wit)
            return acc
        prefix = os.path.join(out, lib)
        import re
        selected = [name] if mode == 'use' else [name, second]
        if mode == 'auto':
            # Which strategy the autodetection selected is read from what the run wrote, not from the wording of its messages: no
            # demultiplexed and no reject record at all means that nothing was selected (then nothing is promised about the outputs).
            written = 0
            for fn in glob.glob(os.path.join(prefix, '*.fastq.gz')):
                recs_, _err = fq.read_fastq_strict(fn)
                written += len(recs_ or [])
            if written == 0:
                acc.count('config:cli_auto_selected_none')
                acc.sample = {'config': cfg, 'autodetect_selected': []}
                return acc
            # the short name of the selected strategy as the yield table of the log gives it (absent when it accepted nothing)
            logtxt = open(os.path.join(prefix, 'demultiplexing.log')).read()
            selected = sorted(set(x for section in logtxt.split('Strategy\tReads\n')[1:] for x in re.findall(r'^(\S+)\t\d+$', section, flags=re.M))) \
                or ['<selected strategy without yield>']
            if len(selected) > 1:
                acc.violate('yield-counter-mismatch', f'cli autodetect: the log lists yields for {selected} although one strategy was selected ({cfg})', wit)
                return acc
            cfg['autodetect_selected'] = selected
        consumed_n = N if nopt is None else min(N, nopt)
        consumed = [x['id'] for x in all_pairs[:consumed_n]]
        byid = {x['id']: x for x in all_pairs}
        mates = ['R1'] + ([] if single else ['R2'])

        def load(pattern):
            res = []
            for m in mates:
                rows = []
                for path in sorted(glob.glob(os.path.join(prefix, pattern.format(m=m)))):
                    recs, err = fq.read_fastq_strict(path)
                    acc.count('files:strict_parsed')
                    if err:
                        acc.violate('malformed-fastq-output', f'cli {name}: {os.path.basename(path)}: {err} ({cfg})', wit)
                        return None
                    rows.append(recs)
                res.append(rows)
            return res
        demux = load('demultiplexed.*.{m}.fastq.gz' if scsepf else 'demultiplexed{m}.fastq.gz')
        rej = load('rejects{m}.fastq.gz') if not norejects else [[] for _ in mates]
        if demux is None or rej is None:
            return acc

        def ids(rows_per_mate, what):
            out_ids = []
            for fi, recs in enumerate(rows_per_mate[0]):
                these = [(fq.record_id(x[0]) or (None,))[0] for x in recs]
                if None in these:
                    acc.violate(f'{what}-record-unidentifiable', f'cli {name}: {what} record cannot be traced to an input ({cfg})', wit)
                known_ids = [t for t in these if t is not None]
                if len(selected) > 1:
                    # every selected strategy is offered the read: one record per (read, strategy) at most
                    # (the MX tag does not identify the selected strategy: composite strategies write the name of the inner protocol)
                    per_read = collections.Counter(known_ids)
                    if max(per_read.values(), default=0) > len(selected):
                        acc.violate(f'{what}-written-twice', f'cli {name}: a read has more {what} records than strategies were selected ({cfg})', wit)
                    if known_ids != sorted(known_ids):
                        acc.violate(f'{what}-order-not-preserved', f'cli {name}: ids not increasing in a {what} file: {known_ids[:10]} ({cfg})', wit)
                elif known_ids != sorted(known_ids) or len(set(known_ids)) != len(known_ids):
                    acc.violate(f'{what}-written-twice' if len(set(known_ids)) != len(known_ids) else f'{what}-order-not-preserved',
                                f'cli {name}: ids not strictly increasing in a {what} file: {known_ids[:10]} ({cfg})', wit)
                for mi in range(1, len(rows_per_mate)):
                    other = [(fq.record_id(x[0]) or (None,))[0] for x in rows_per_mate[mi][fi]] if fi < len(rows_per_mate[mi]) else None
                    if other != these:
                        acc.violate('mates-out-of-sync', f'cli {name}: {what} R1/R2 files differ in record ids ({cfg})', wit)
                out_ids += known_ids
            return out_ids
        d_ids = ids(demux, 'demultiplexed')
        r_ids = ids(rej, 'reject') if not norejects else []
        acc.count('oracle:accepted_ids', len(d_ids))
        acc.count('oracle:rejected_ids', len(r_ids))
        acc.count('hook:FastqIterator.__next__', 0)
        if len(selected) > 1:
            # per read: one outcome per selected strategy
            cnt = collections.Counter(d_ids) + collections.Counter(r_ids)
            if not norejects:
                bad = [i for i in consumed if cnt[i] != len(selected)]
                if bad:
                    acc.violate('read-vanished' if any(cnt[i] < len(selected) for i in bad) else 'written-to-both-sinks',
                                f'cli {name}: {len(bad)} reads do not have one outcome per selected strategy {selected}, e.g. '
                                f'{[(i, cnt[i]) for i in bad[:5]]} ({cfg})', wit)
        elif set(d_ids) & set(r_ids):
            acc.violate('written-to-both-sinks', f'cli {name}: ids in both outputs ({cfg})', wit)
        if not norejects:
            missing = sorted(set(consumed) - set(d_ids) - set(r_ids))
            if missing:
                acc.violate('read-vanished', f'cli {name}: {len(missing)} of the first {consumed_n} pairs are in neither output, e.g. {missing[:6]} '
                                             f'(kinds {sorted(set((byid[i]["kind"], byid[i]["hk"]) for i in missing))[:4]}) ({cfg})', wit)
        extra = sorted((set(d_ids) | set(r_ids)) - set(consumed))
        if extra:
            acc.violate('unconsumed-pair-written', f'cli {name}: ids {extra[:6]} written although -n {nopt} limits the library to its first {consumed_n} pairs ({cfg})', wit)
        log = open(os.path.join(prefix, 'demultiplexing.log')).read()
        counted = sum(int(x) for sname in selected for x in re.findall(r'^%s\t(\d+)$' % re.escape(sname), log, flags=re.M))
        if counted != len(d_ids):
            acc.violate('yield-counter-mismatch', f'cli {name}: log reports {counted} reads for the selected strategies {selected}, {len(d_ids)} records written ({cfg})', wit)
        if d_ids and r_ids:
            acc.sigs.add(f"cli/{case['j']}/{sorted(cfg.items(), key=str)}")
        acc.sample = {'config': cfg, 'consumed': consumed_n, 'demultiplexed': len(d_ids), 'rejected': len(r_ids)}
    return acc


def build_library(r, name, wl, iwl, n, single, case_id, qmax):
    pairs = []
    for i in range(n):
        lay = LY.layout_for_generation(name, r)
        kind = r.choice(['good'] * 8 + ['mm1', 'mm1', 'mm2', 'unknown', 'unknown', 'short', 'short', 'empty', 'allN'])
        hk = r.choice(HDR_KINDS)
        index_seq = r.choice([b for b, _ in iwl[fq.INDEX_ALIAS]])
        if hk == 'illumina_unknown_index':
            index_seq = r.choice(['GGGGGGGG', 'ACGTAC', 'NNNNNN', 'TTTTTTTTTT'])
        elif hk == 'illumina_numeric_index':
            index_seq = str(r.randint(1, 96))
        base_kind = hk if hk in ('short7', 'scmo', '3dec') else 'illumina'
        p = fq.make_pair(r, lay, wl.get(lay['alias'], []), kind, i + 1, case_id, hdr_kind=base_kind, index_seq=index_seq,
                         qmax=qmax, p_n=0.03, single_end=single, needs=lay.get('needs'))
        p['hk'] = hk
        p['lay'] = lay
        pairs.append(p)
    return pairs


def run_case(case):
    if case.get('kind') == 'cli':
        return run_cli_case(case)
    from singlecellmultiomics.fastqProcessing.fastqHandle import FastqHandle
    from singlecellmultiomics.fastqProcessing import fastqIterator
    acc = Acc()
    name = case['strategy']
    r = rng(case['seed'], 'C01', name, case['rep'])
    k = r.choice([0, 0, 1])
    with Scratch('c01') as d:
        dmx, wl, iwl, bdir = get_env(d, r, k)
        strategy = dmx.getSelectedStrategiesFromStringList([name], verbose=False)[0]
        ends = LY.ends_of(name)
        # mostly the matching kind of library, sometimes the other one (the statement covers both)
        if ends == 'se':
            single = r.random() < 0.85
        elif ends == 'pe':
            single = r.random() < 0.12
        else:
            single = r.random() < 0.4
        n = r.choice([40, 60, 100, 200, 300]) if case.get('n') is None else case['n']
        qmax = r.choice([41, 51, 93, 93])
        case_id = 7000 + case['rep']
        pairs = build_library(r, name, wl, iwl, n, single, case_id, qmax)
        files = [os.path.join(d, 'lib_R1.fastq.gz')] + ([] if single else [os.path.join(d, 'lib_R2.fastq.gz')])
        unterminated = r.random() < 0.3
        acc.count('input:last_line_without_newline', 1 if unterminated else 0)
        form = ['plain', 'plain', 'crlf', 'plusname'][case['rep'] % 4] if 'rep' in case else 'plain'
        acc.count('input:fastq_form:' + form)
        fq.write_fastq(files, pairs, final_newline=not unterminated, form=form)
        use_reject = r.random() < 0.75
        per_cell = name != 'ILLU' and r.random() < 0.3
        if name == 'ILLU' and case['rep'] % 8 == 5:
            per_cell = True       # a bulk strategy with one file per cell: nothing can be written per cell, every pair has to end up in the rejects
        library = 'LIBC01'
        mrp = r.choice([None, None, None, 1, n - 1, n, n + 5, r.randint(1, n)])
        cfg = {'strategy': name, 'k': k, 'single_end_input': single, 'strategy_ends': ends, 'n': n, 'qmax': qmax, 'reject_handle': use_reject,
               'per_cell': per_cell, 'maxReadPairs': mrp, 'library_name_length': len(library)}
        if per_cell:
            acc.count('config:per_cell')
        if not use_reject:
            acc.count('config:no_reject_handle')
        if mrp is not None:
            acc.count('config:max_read_pairs')
        # ---- monitors
        pulled = []
        orig_next = fastqIterator.FastqIterator.__next__

        def spy_next(self_):
            recs = orig_next(self_)
            pulled.append(recs)
            acc.count('hook:FastqIterator.__next__')
            return recs
        fastqIterator.FastqIterator.__next__ = spy_next
        tspy, rspy = SinkSpy(acc, 'target'), SinkSpy(acc, 'reject')
        prefix = os.path.join(d, 'out')
        os.makedirs(prefix)
        target = FastqHandle(os.path.join(prefix, 'demultiplexed'), not single, single_cell=per_cell, maxHandles=r.randint(2, 5))
        if per_cell:
            target.handles.pruneEvery = r.choice([1, 3, 7, 20])
        if case['rep'] % 4 == 1 and use_reject:
            # environment fault: the output device refuses every seventh write of an accepted pair (EIO); the pair was not demultiplexed -
            # it has to be kept with the rejects and must not be counted
            tspy.fail_every = 7
            acc.count('fault:target_write_refused_every_7th')
        import builtins as _bi
        import errno as _errno
        import zlib as _zlib
        real_open = _bi.open
        shortage = {'opens': 0, 'fired': 0}
        if per_cell and name != 'ILLU' and (case['rep'] + _zlib.crc32(name.encode())) % 2 == 1:
            # environment fault: descriptor shortage - every third open of a per-cell file fails with EMFILE while other cell files are open
            # (closing those makes room): the writer recovers, no pair is lost, written twice or split between the outputs
            hl_ = target.handles

            def short_open(file, mode='r', *a, **k):
                if isinstance(file, str) and file.startswith(prefix) and os.path.basename(file).startswith('demultiplexed.'):
                    shortage['opens'] += 1
                    others = [p_ for p_, h_ in hl_.openHandles.items() if p_ != file and h_.get('handle') is not None]
                    if shortage['opens'] % 3 == 0 and others:
                        shortage['fired'] += 1
                        raise OSError(_errno.EMFILE, 'Too many open files', file)
                return real_open(file, mode, *a, **k)
            _bi.open = short_open
        target = tspy.wrap(target)
        reject = rspy.wrap(FastqHandle(os.path.join(prefix, 'rejects'), not single)) if use_reject else None
        log_path = os.path.join(prefix, 'demultiplexing.log')
        out = io.StringIO()
        crashed = None
        try:
            with open(log_path, 'w') as log, contextlib.redirect_stdout(out):
                processed, yields = dmx.demultiplex(files, strategies=[strategy], targetFile=target, rejectHandle=reject,
                                                    log_handle=log, library=library, maxReadPairs=mrp)
        except Exception as ex:
            crashed = ex
        finally:
            fastqIterator.FastqIterator.__next__ = orig_next
            _bi.open = real_open
            acc.count('fault:per_cell_file_open_refused_for_lack_of_descriptors', shortage['fired'])
            try:
                target.close()
                if reject is not None:
                    reject.close()
            except Exception:
                pass
        acc.evals += 1
        wit = {'config': cfg, 'library_head': [(p['id'], p['kind'], p['hk'], p['reads']) for p in pairs[:3]]}
        if crashed is not None:
            acc.violate('loader-raised:' + type(crashed).__name__, f'{name}: loader raised {crashed!r} on a well-formed library ({cfg})', wit)
            return acc
        # ---- consumed ids
        exp_processed = n if mrp is None else min(n, mrp)
        if processed != exp_processed:
            acc.violate('processed-count', f'{name}: processedReadPairs={processed} expected {exp_processed} (N={n}, maxReadPairs={mrp})', wit)
        if len(pulled) < processed:
            acc.violate('processed-count', f'{name}: processedReadPairs={processed} but only {len(pulled)} pairs were pulled from the iterator', wit)
        consumed = [p['id'] for p in pairs[:processed]]
        byid = {p['id']: p for p in pairs}
        mates = ['R1'] + ([] if single else ['R2'])

        def load(patterns):
            """returns per mate list of records or None on parse error"""
            res = []
            for m in mates:
                rows = []
                for path in sorted(glob.glob(os.path.join(prefix, patterns.format(m=m)))):
                    recs, err = fq.read_fastq_strict(path)
                    acc.count('files:strict_parsed')
                    if err:
                        acc.violate('malformed-fastq-output', f'{name}: {os.path.basename(path)}: {err} ({cfg})', wit)
                        return None
                    rows.append((path, recs))
                res.append(rows)
            return res
        demux = load('demultiplexed{m}.fastq.gz') if not per_cell else load('demultiplexed.*.{m}.fastq.gz')
        rejects = load('rejects{m}.fastq.gz') if use_reject else [[] for _ in mates]
        if demux is None or rejects is None:
            return acc

        def ids_of(rows_per_mate, what):
            """checks mate sync per file; returns list of ids (mate 1 order, files concatenated)"""
            ids = []
            first = rows_per_mate[0]
            for fi, (path, recs) in enumerate(first):
                these = []
                for rec in recs:
                    rid = fq.record_id(rec[0])
                    if rid is None or rid[1] != case_id or rid[0] not in byid:
                        acc.violate(f'{what}-record-unidentifiable', f'{name}: {what} record with header {rec[0][:120]!r} cannot be traced to an input', wit)
                        continue
                    these.append(rid[0])
                if these != sorted(these) or len(set(these)) != len(these):
                    dup = len(set(these)) != len(these)
                    acc.violate(f'{what}-written-twice' if dup else f'{what}-order-not-preserved',
                                f'{name}: ids in {os.path.basename(path)} are not strictly increasing: {these[:12]}', wit)
                for mi in range(1, len(rows_per_mate)):
                    if fi >= len(rows_per_mate[mi]):
                        acc.violate('mates-out-of-sync', f'{name}: no mate file for {os.path.basename(path)}', wit)
                        continue
                    other = rows_per_mate[mi][fi][1]
                    oids = [(fq.record_id(x[0]) or (None,))[0] for x in other]
                    if oids != these:
                        acc.violate('mates-out-of-sync', f'{name}: {what} R1 has {len(these)} records, R2 {len(oids)}; first difference at '
                                                         f'{next((i for i, (a, b) in enumerate(zip(these, oids)) if a != b), min(len(these), len(oids)))}', wit)
                ids.extend(these)
            return ids
        d_ids = ids_of(demux, 'demultiplexed')
        r_ids = ids_of(rejects, 'reject') if use_reject else []
        acc.count('oracle:accepted_ids', len(d_ids))
        acc.count('oracle:rejected_ids', len(r_ids))
        both = set(d_ids) & set(r_ids)
        if both:
            acc.violate('written-to-both-sinks', f'{name}: ids {sorted(both)[:6]} are in the demultiplexed AND the rejects output', wit)
        out_ids = sorted(d_ids + r_ids)
        if use_reject:
            missing = sorted(set(consumed) - set(out_ids))
            if missing:
                kinds = sorted(set((byid[i]['kind'], byid[i]['hk']) for i in missing))
                txt = out.getvalue()
                exc = ''
                if 'Fatal error' in txt:
                    import re
                    m = re.search(r'\n(\w+(?:Error|Exception)[^\n]*)\n', txt)
                    exc = m.group(1)[:80] if m else 'generic exception'
                    mech = 'read-vanished-after-generic-exception:' + exc.split(':')[0]
                else:
                    mech = 'read-vanished'
                acc.violate(mech, f'{name}: {len(missing)} consumed pairs are in neither output (ids {missing[:6]}, kinds {kinds[:4]}); {exc} ({cfg})', wit)
        extra = sorted(set(out_ids) - set(consumed))
        if extra:
            acc.violate('unconsumed-pair-written', f'{name}: ids {extra[:6]} were written but lie beyond the {processed} consumed pairs', wit)
        # ---- reject content
        if use_reject:
            for mi, rows in enumerate(rejects):
                for path, recs in rows:
                    for rec in recs:
                        rid = fq.record_id(rec[0])
                        if rid is None or rid[0] not in byid:
                            continue
                        src = byid[rid[0]]['reads'][mi]
                        if rec[1] != src[1] or rec[3] != src[3]:
                            acc.violate('reject-bases-or-qualities-changed', f'{name}: reject id {rid[0]} mate {mi + 1} differs from the input read', wit)
                        t = fq.parse_out_header(rec[0]) if rec[0].startswith('@Is') else dict(RR=rec[0].split(';RR:')[1] if ';RR:' in rec[0] else '')
                        if not t.get('RR'):
                            acc.violate('reject-without-reason', f'{name}: reject id {rid[0]} carries no rejection reason: {rec[0][:100]}', wit)
        # ---- counters
        n_written = len(d_ids)
        y = sum(yields.values())
        failed_writes = tspy.attempts - len(tspy.calls)      # writes of accepted pairs that raised (observed at the sink, not read from the console)
        acc.count('oracle:pairs_accepted_by_the_strategy_but_refused_at_write_time', failed_writes)
        if y != n_written:
            txt = out.getvalue()
            mech = 'yield-counter-mismatch'
            if failed_writes:
                mech = 'yield-counter-counts-failed-reads'
            acc.violate(mech, f'{name}: strategyYields={dict(yields)} but {n_written} records were written to the demultiplexed output ({cfg})', wit)
        if len(tspy.calls) != n_written:
            acc.violate('sink-calls-vs-file', f'{name}: {len(tspy.calls)} target.write calls but {n_written} records on disk', wit)
        logtxt = open(log_path).read()
        import re as _re2
        if not _re2.search(rf'(?<![0-9]){processed}(?![0-9])', logtxt):      # the wording of the log is the tool's business, the number is not
            acc.violate('log-mismatch', f'{name}: log does not report {processed} processed pairs: {logtxt[:200]!r}', wit)
        for s_, c_ in yields.items():
            if f'{s_}\t{c_}\n' not in logtxt:
                acc.violate('log-mismatch', f'{name}: log lacks the line for {s_} {c_}', wit)
        if d_ids and r_ids:
            acc.sigs.add(f"{name}/{case['rep']}/{sorted(cfg.items(), key=str)}")
        acc.sample = {'config': cfg, 'consumed': len(consumed), 'demultiplexed': len(d_ids), 'rejected': len(r_ids),
                      'kinds': {kk: sum(1 for p in pairs if p['kind'] == kk) for kk in sorted(set(p['kind'] for p in pairs))},
                      'header_kinds': sorted(set(p['hk'] for p in pairs)), 'output_files': len(demux[0])}
    return acc
