"""C05 - tagging conserves alignment records: every input record appears exactly once.

Monitors: input BAM records (from the simulator), output BAM records, header and index written by the real
command line (single process and --multiprocess with 1..4 workers and seeded per-job delays in the workers);
the job table is observed at the worker boundary (one event per job: tasks, pid, completion time, records).
Oracle: multiset equality of primary records, coordinate order, index, declared read groups, --no_rejects.
"""
import os
import pysam
import time
from collections import Counter, defaultdict
from vlib.common import Acc, rng, Scratch
from vlib.sim import frags as F
from vlib.sim.bam import write_bam
from vlib import tagger as T

PROPERTY = 'C05'
LEVEL = 'exploration'
RULE = ('simulated BAMs with unique read ids: 1..12 contigs with lengths around the 100 kb small-contig threshold in random header order, '
        'empty contigs, 0..20 unmapped pairs, half-mapped pairs, orphan mates, invalid fragments; methods nla/chic/qflag x single process / '
        '--multiprocess with 1..4 workers x seeded per-job delays x --no_rejects. Non-trivial = >=2 contigs with reads and >=1 unmapped pair; '
        'distinct = distinct (library seed, configuration).'
        ' Plus relative / ./ paths, dense libraries, flow cells and lanes varying per read, the molecule-buffer ejection interval shrunk to 0..50 fragments.')
ASSUMPTIONS = ['secondary/supplementary alignments are outside the claim (not generated)',
               'mate number is only compared for pairs whose mates are both mapped to the same contig (the third-party mate iterator de-pairs the others)',
               'worker schedules are sampled: observed completion orders are counted, not enumerated']
MIN_NONTRIVIAL = {'quick': 40, 'thorough': 1200}
REQUIRED_MONITORS = ['history:tagged_file_tagged_again_with_other_read_group_format', 'history:same_path_reused', 'eject:interval_shrunk', 'lib:dense', 'lib:placed_unmapped_pairs', 'layout:more_than_100_small_contigs', 'paths:rel', 'paths:dotrel', 'lib:secondary_or_supplementary', 'run:single_process', 'run:multiprocess', 'records:compared', 'jobs:observed', 'run:no_rejects', 'layout:large_after_small',
                     'layout:lone_small_contig', 'lib:unmapped_pairs', 'lib:half_mapped', 'lib:orphans', 'lib:mates_on_two_contigs', 'lib:input_records_with_qcfail_bit', 'lib:hard_clipped_fragments', 'input:header_with_read_groups_programs_and_comments', 'lib:input_without_any_record', 'history:stale_index_next_to_the_input']
SHARD_TIMEOUT = {'quick': 900, 'thorough': 7200}


def gen_cases(tier, seed):
    n = 128 if tier == 'quick' else 4000
    return [{'i': i, 'seed': seed} for i in range(n)]


def contig_layout(r):
    """lengths around the small-contig threshold (100000) in random header order"""
    n = r.choice([1, 2, 2, 3, 4, 6, 9, 12])
    style = r.choice(['mixed', 'mixed', 'small_only', 'large_only', 'smalls_then_large', 'one_small'])
    if MANY[0]:
        # an assembly with many scaffolds: far more than a hundred small contigs with reads, plus one large contig
        n, style = r.choice([105, 130, 210]), 'many_small'
    lens = []
    for j in range(n):
        if style == 'small_only' or (style == 'one_small'):
            lens.append(r.choice([4000, 20000, 99999]))
        elif style == 'large_only':
            lens.append(r.choice([100000, 100001, 150000]))
        elif style == 'smalls_then_large':
            lens.append(r.choice([5000, 30000]) if j < n - 1 or n == 1 else 120000)
        elif style == 'many_small':
            lens.append(r.choice([2500, 4000]) if j else 120000)
        else:
            lens.append(r.choice([3000, 20000, 99999, 100000, 130000]))
    if style == 'one_small':
        lens = lens[:1]
    names = [f'ctg{j}' for j in range(len(lens))]
    if not MANY[0] and r.random() < 0.4:
        # contig names as real references have them: with the characters region strings and file names are built from
        special = ['HLA-A*01:01', 'chrUn_KI270302v1', 'ERCC-00002', 'chr1_KI270706v1_random', 'NC_000001.11', '12', 'ctg1.1', 'gi|9626243|ref|NC_001416.1|', 'chrEBV']
        r.shuffle(special)
        for j in range(min(len(names), r.randint(1, 3))):
            names[r.randrange(len(names))] = special[j]
        if len(set(names)) != len(names):
            names = [f'ctg{j}' for j in range(len(lens))]
        else:
            SPECIAL[0] += 1
    order = list(zip(names, lens))
    if style != 'smalls_then_large':
        r.shuffle(order)
    return order, style


# kinds of fragments with both mates in the file: the mate number is part of the record's identity
MATED = ('pair', 'same_orientation', 'half_mapped', 'split')
DENSE = [False]
HARD = [0]
SPECIAL = [0]
MANY = [False]
PLACED = [0]


def build_library(r, case_id, method):
    contigs, style = contig_layout(r)
    with_reads = [c for c in contigs if r.random() < (0.8 if style != 'many_small' else 0.97)] or [contigs[0]]
    gen = F.Genome(r, contigs)
    recs, truths = [], {}
    rid = 1
    # a quarter of the libraries are dense: many cut sites on one contig, several UMIs per cell, site and strand with copies of very different
    # length - while one molecule of a site is old enough to leave the molecule buffer, its neighbours are not
    dense = r.random() < 0.25
    DENSE[0] = dense
    for name, ln in with_reads:
        nsite = r.randint(1, 4) if style != 'many_small' else 1
        is_dense_contig = dense and (name, ln) == with_reads[0] and ln > 4000
        if is_dense_contig:
            nsite = r.randint(30, 90)
        for _ in range(nsite):
            pos = r.randrange(450, ln - 450) if not is_dense_contig else r.randrange(800, ln - 800)
            if method == 'nla':
                if 'CATG' in gen.get(name)[pos - 8:pos + 12]:
                    continue
                gen.plant(name, pos)
            site_cell, site_strand = r.randint(1, 3), r.random() < 0.5
            for _ in range(r.randint(1, 4)):
                umi = F.rand_dna(r, 3)
                cell = r.randint(1, 3) if not is_dense_contig else site_cell
                reverse = (r.random() < 0.5) if not is_dense_contig else site_strand
                for _ in range(r.randint(1, 3)):
                    broken = method == 'nla' and r.random() < 0.12
                    fr, tr = F.make_fragment(gen, r, rid, case_id, 'nla' if method == 'qflag' else method, cell, name, pos, reverse, umi,
                                             r.randint(60, 300) if not is_dense_contig else r.choice([60, 90, 150, 300, 500, 700]),
                                             clip=r.choice([0, 0, 0, 2]), motif_ok=not broken,
                                             single_end=r.random() < 0.1, dup_flag=r.random() < 0.1)
                    if fr is None:
                        continue
                    if r.random() < 0.1 and F.add_hard_clips(r, fr):
                        HARD[0] += 1
                    kind = 'pair'
                    # half mapped: R2 unmapped, placed at R1's position ; orphan: R2 missing from the file
                    x = r.random()
                    if len(fr) == 2 and x < 0.08:
                        r1, r2 = fr
                        r1['flag'] = (r1['flag'] | 8) & ~2 & ~32
                        r2 = dict(r2, flag=1 | 4 | 128 | (32 if r1['flag'] & 16 else 0), pos=r1['pos'], cigar=None, mapq=0, tags={},
                                  next_pos=r1['pos'], tlen=0)
                        r1['tlen'] = 0
                        r1['next_pos'] = r1['pos']
                        fr = [r1, r2]
                        kind = 'half_mapped'
                    elif len(fr) == 2 and x < 0.14:
                        fr = [fr[0]] if r.random() < 0.7 else [fr[1]]
                        kind = 'orphan'
                    elif len(fr) == 2 and x < 0.19 and len(contigs) > 1 and method != 'qflag':
                        # the mates of a pair were aligned to two different contigs
                        other = r.choice([c for c in contigs if c[0] != name])
                        r1, r2 = fr
                        r2['tid'] = gen.tid(other[0])
                        r2['pos'] = r.randrange(0, max(1, other[1] - 60))
                        r2['flag'] &= ~2
                        r1['flag'] &= ~2
                        r1['next_tid'], r1['next_pos'], r1['tlen'] = r2['tid'], r2['pos'], 0
                        r2['next_tid'], r2['next_pos'], r2['tlen'] = r1['tid'], r1['pos'], 0
                        kind = 'split'
                        if other not in with_reads:
                            with_reads.append(other)
                    elif len(fr) == 2 and method == 'chic' and x < 0.25:
                        # same orientation: invalid for chic
                        fr[1]['flag'] ^= 16
                        fr[0]['flag'] ^= 32
                        kind = 'same_orientation'
                    tr['kind'] = kind if len(fr) == 2 or kind == 'orphan' else 'single_end'
                    tr['broken'] = broken
                    if r.random() < 0.12:
                        # the input already carries the QC-fail bit (an upstream filter set it): still the same record, same mate number
                        for x_ in fr:
                            x_['flag'] |= 512
                        tr['input_qcfail'] = True
                    recs.extend(fr)
                    truths[rid] = tr
                    rid += 1
    # secondary / supplementary alignments: dropped by the mate pairing library and outside the claim, but BAMs contain them -
    # also on contigs that hold nothing else (such a contig is scheduled as a job that writes no molecule)
    if method != 'qflag' and truths and r.random() < 0.5:
        donors = [x for x in recs if x.get('tid', -1) >= 0 and x.get('cigar')]
        only_supp = [c for c in contigs if c not in with_reads]
        targets = (only_supp if only_supp and r.random() < 0.7 else contigs)
        for _ in range(r.randint(1, 6)):
            d0 = r.choice(donors)
            name, ln = r.choice(targets)
            sup = dict(d0, flag=(d0['flag'] | r.choice([2048, 256])) & ~2, tid=gen.tid(name), pos=r.randrange(0, ln - 60), tags=dict(d0['tags']))
            sup['_supplementary'] = True
            recs.append(sup)
            if (name, ln) not in with_reads:
                with_reads.append((name, ln))
    # a contig that carries only invalid fragments (nothing is left of it with --no_rejects)
    if method == 'nla' and r.random() < 0.35:
        empties = [c for c in contigs if c not in with_reads]
        if empties:
            name, ln = r.choice(empties)
            for _ in range(r.randint(1, 3)):
                pos = r.randrange(450, ln - 450)
                if 'CATG' in gen.get(name)[pos - 8:pos + 12]:
                    continue
                gen.plant(name, pos)
                fr, tr = F.make_fragment(gen, r, rid, case_id, 'nla', r.randint(1, 3), name, pos, r.random() < 0.5, F.rand_dna(r, 3), r.randint(60, 300), motif_ok=False)
                if fr is None:
                    continue
                tr['kind'] = 'pair'
                tr['broken'] = True
                recs.extend(fr)
                truths[rid] = tr
                rid += 1
            with_reads.append((name, ln))
    # pairs flagged unmapped that keep a contig and a coordinate - also on a contig that holds nothing else
    if r.random() < 0.4:
        empty = [c for c in contigs if c not in with_reads]
        for (name, ln) in ([r.choice(empty)] if empty and r.random() < 0.7 else []) + [r.choice(contigs)]:
            for _ in range(r.randint(1, 3)):
                recs.extend(F.unmapped_pair(r, rid, case_id, r.randint(1, 3), F.rand_dna(r, 3), place=(gen.tid(name), r.randrange(0, max(1, ln - 40)))))
                truths[rid] = {'id': rid, 'kind': 'unmapped', 'valid': False}
                rid += 1
            if (name, ln) not in with_reads:
                with_reads.append((name, ln))
        PLACED[0] += 1
    n_unmapped = r.choice([0, 1, 2, 4, 20])
    for _ in range(n_unmapped):
        recs.extend(F.unmapped_pair(r, rid, case_id, r.randint(1, 3), F.rand_dna(r, 3)))
        truths[rid] = {'id': rid, 'kind': 'unmapped', 'valid': False}
        rid += 1
    return gen, recs, truths, style, [c for c, _ in with_reads]


def rec_key(a, with_mate):
    return (F.id_from_name(a.query_name), a.query_sequence, tuple(a.query_qualities or ()), a.reference_name, a.reference_start, a.cigarstring,
            (2 if a.is_read2 else 1) if with_mate else 0)


def input_keys(gen, recs, truths):
    keys = Counter()
    for rec in recs:
        if rec.get('_supplementary'):
            continue
        rid = F.id_from_name(rec['name'])
        t = truths[rid]
        with_mate = t.get('kind') in MATED
        contig = gen.refs[rec['tid']][0] if rec.get('tid', -1) >= 0 else None
        keys[(rid, rec['seq'], tuple(rec['qual']), contig, rec.get('pos', -1), rec.get('cigar'),
              ((2 if rec['flag'] & 128 else 1) if with_mate else 0))] += 1
    return keys


def run_case(case):
    acc = Acc()
    r = rng(case['seed'], 'C05', case['i'])
    method = r.choice(['nla', 'nla', 'chic', 'qflag'])
    MANY[0] = case['i'] % 32 == 5
    acc.count('layout:more_than_100_small_contigs', 1 if MANY[0] else 0)
    gen, recs, truths, style, with_reads = build_library(r, case['i'] + 1, method)
    MANY[0] = False
    acc.count('lib:dense', 1 if DENSE[0] else 0)
    acc.count('lib:hard_clipped_fragments', HARD[0])
    HARD[0] = 0
    acc.count('layout:contig_names_with_separator_characters', SPECIAL[0])
    SPECIAL[0] = 0
    acc.count('lib:placed_unmapped_pairs', PLACED[0])
    PLACED[0] = 0
    if case['i'] % 32 == 9:
        # a file without a single record (an empty lane, a filter that removed everything): nothing in, nothing out, still a sorted, indexed BAM
        recs, truths = [], {}
        acc.count('lib:input_without_any_record')
    elif not recs:
        return acc
    multi = r.random() < 0.6 or style == 'many_small'
    threads = r.randint(1, 4)
    no_rejects = method != 'qflag' and r.random() < 0.35
    delay_seed = r.randint(0, 10 ** 6) if r.random() < 0.8 else None
    cfg = {'method': method, 'multiprocess': multi, 'tagthreads': threads if multi else None, 'no_rejects': no_rejects, 'layout': style,
           'contigs': gen.refs, 'contigs_with_reads': with_reads, 'delay_seed': delay_seed}
    kinds = Counter(t.get('kind') for t in truths.values())
    acc.count('lib:unmapped_pairs', kinds.get('unmapped', 0))
    acc.count('lib:half_mapped', kinds.get('half_mapped', 0))
    acc.count('lib:orphans', kinds.get('orphan', 0))
    acc.count('lib:mates_on_two_contigs', kinds.get('split', 0))
    acc.count('lib:input_records_with_qcfail_bit', sum(1 for t in truths.values() if t.get('input_qcfail')))
    acc.count('lib:secondary_or_supplementary', sum(1 for x in recs if x.get('_supplementary')))
    lens = dict(gen.refs)
    order_with_reads = [n for n, _ in gen.refs if n in with_reads]
    small_run = 0
    for n in order_with_reads:
        if lens[n] < 100000:
            small_run += 1
        else:
            if small_run >= 2:
                acc.count('layout:large_after_small')
            small_run = 0
    if sum(1 for n in order_with_reads if lens[n] < 100000) == 1:
        acc.count('layout:lone_small_contig')
    for k in ('layout:large_after_small', 'layout:lone_small_contig', 'run:no_rejects', 'run:single_process', 'run:multiprocess', 'jobs:observed'):
        acc.count(k, 0)
    with Scratch('c05') as dd:
        if multi and r.random() < 0.3:
            # history: an earlier run of the tagger in this process on ANOTHER library that lived at the very same path
            gen0, recs0, truths0, _, _ = build_library(r, case['i'] + 5000, method)
            if recs0:
                write_bam(os.path.join(dd, 'in.bam'), gen0.refs, recs0)
                os.makedirs(os.path.join(dd, 'out0'))
                T.run_cli([os.path.join(dd, 'in.bam'), '-o', os.path.join(dd, 'out0', 'tagged.bam'), '-method', method, '-temp_folder', dd,
                           '--multiprocess', '-tagthreads', '2'])
                for fn in ('in.bam', 'in.bam.bai'):
                    if os.path.exists(os.path.join(dd, fn)):
                        os.remove(os.path.join(dd, fn))
                acc.count('history:same_path_reused')
        ties = r if case['i'] % 2 else None
        acc.count('input:ties_in_random_order', 1 if ties else 0)
        header_extra = None
        if case['i'] % 3 == 0:
            # the input went through other tools before: its header already declares read groups, programs and comments, and some reads
            # carry a read group of that earlier life
            header_extra = {'RG': [{'ID': 'lane1', 'SM': 'bulk', 'PL': 'ILLUMINA'}, {'ID': 'NS500.2.OLD', 'SM': 'oldsample', 'LB': 'oldlib'}],
                            'PG': [{'ID': 'bwa', 'PN': 'bwa', 'VN': '0.7.17', 'CL': 'bwa mem ref.fa r1.fq r2.fq'}, {'ID': 'samtools', 'PN': 'samtools', 'PP': 'bwa', 'VN': '1.10'}],
                            'CO': ['user comment: aligned for project X']}
            for x_ in recs:
                if r.random() < 0.5 and x_.get('tid', -1) >= -1:
                    x_['tags'] = dict(x_['tags'], RG=r.choice(['lane1', 'NS500.2.OLD']))
            acc.count('input:header_with_read_groups_programs_and_comments')
        stale_index = case['i'] % 8 == 6 and bool(recs)
        if stale_index:
            # history: the file was produced and indexed before (in.bam.bai), then regenerated with other content by a tool that names its
            # index in.bai - the old in.bam.bai is still lying next to it, older than the file
            write_bam(os.path.join(dd, 'in.bam'), gen.refs, recs[: max(1, len(recs) // 3)])      # the earlier, smaller version of the file
            os.remove(os.path.join(dd, 'in.bam'))
            past = time.time() - 3600
            os.utime(os.path.join(dd, 'in.bam.bai'), (past, past))
            acc.count('history:stale_index_next_to_the_input')
        bam = write_bam(os.path.join(dd, 'in.bam'), gen.refs, recs, tie_rng=ties, header_extra=header_extra, index=not stale_index)
        if stale_index:
            pysam.index(bam, os.path.join(dd, 'in.bai'))
        out = os.path.join(dd, 'out', 'tagged.bam')
        os.makedirs(os.path.dirname(out))
        # the form of the paths is not under the tool's control: absolute, relative to the working directory, with a leading './'
        path_form = r.choice(['abs', 'abs', 'rel', 'dotrel'])
        acc.count('paths:' + path_form)
        if path_form == 'abs':
            cmd = [bam, '-o', out, '-method', method, '-temp_folder', dd]
        elif path_form == 'rel':
            cmd = ['in.bam', '-o', os.path.join('out', 'tagged.bam'), '-method', method, '-temp_folder', 'tmp_rel']
        else:
            cmd = ['./in.bam', '-o', './out/tagged.bam', '-method', method, '-temp_folder', './tmp_rel']
        cfg['path_form'] = path_form
        if multi:
            cmd += ['--multiprocess', '-tagthreads', str(threads)]
        if no_rejects:
            cmd.append('--no_rejects')
            acc.count('run:no_rejects')
        events = os.path.join(dd, 'events.jsonl')
        cwd0 = os.getcwd()
        os.makedirs(os.path.join(dd, 'tmp_rel'), exist_ok=True)
        os.chdir(dd)
        try:
            eject_every = r.choice([None, 0, 1, 3, 10, 50])
            cfg['molecule_buffer_checked_every'] = eject_every if eject_every is not None else 'default (10000)'
            acc.count('eject:interval_shrunk', 0 if eject_every is None else 1)
            exc, txt = T.run_cli(cmd, event_file=events if multi else None, delay_seed=delay_seed, eject_every=eject_every)
        finally:
            os.chdir(cwd0)
        acc.evals += 1
        acc.count('run:multiprocess' if multi else 'run:single_process')
        wit = {'config': cfg, 'library': {'records': len(recs), 'kinds': dict(kinds)},
               'records_head': [(x['name'].split('CX:')[1].split(';')[0], x['flag'], x.get('tid'), x.get('pos'), x.get('cigar')) for x in recs[:40]]}
        if exc is not None:
            acc.violate('tagger-raised:' + type(exc).__name__, f'tagger raised {exc!r} ({cfg}); tail: {txt[-400:]}', wit)
            return acc
        out_recs, hdr, info = T.load_records(out)
        if info['error']:
            acc.violate('output-unreadable', f'output BAM unreadable: {info["error"]} ({cfg})', wit)
            return acc
        evs = T.read_events(events) if multi else []
        acc.count('jobs:observed', len(evs))
        # ---- expected input multiset
        expect = input_keys(gen, recs, truths)
        if no_rejects:
            drop = set()
            for rid, t in truths.items():
                k = t.get('kind')
                if k == 'unmapped' or (method == 'nla' and t.get('broken')) or (method == 'chic' and k == 'same_orientation'):
                    drop.add(rid)
                elif k == 'orphan':
                    # an orphan R2 has no R1: invalid ; an orphan R1 alone is a valid single-end fragment
                    pass
            undecided = set(rid for rid, t in truths.items() if t.get('kind') in ('orphan', 'half_mapped', 'split') or t.get('input_qcfail'))
            expect = Counter({k: v for k, v in expect.items() if k[0] not in drop and k[0] not in undecided})
        got = Counter()
        for a in out_recs:
            rid = F.id_from_name(a.query_name)
            t = truths.get(rid, {})
            with_mate = t.get('kind') in MATED
            if no_rejects and (t.get('kind') in ('orphan', 'half_mapped', 'split') or t.get('input_qcfail')):
                continue
            got[rec_key(a, with_mate)] += 1
        acc.count('records:compared', sum(expect.values()))
        if got != expect:
            missing = expect - got
            extra = got - expect
            miss_ids = sorted(set(k[0] for k in missing))
            extra_ids = sorted(set(k[0] for k in extra))
            miss_contigs = Counter(k[3] for k in missing.elements())
            dup_contigs = Counter(k[3] for k in extra.elements())
            changed = set(miss_ids) & set(extra_ids)
            if changed:
                mech = 'record-content-changed'
            elif missing and not extra:
                lost_unmapped = all(k[3] is None for k in missing)
                mech = 'records-lost:' + ('unmapped' if lost_unmapped else 'whole-contig' if multi and any(
                    sum(1 for kk in expect if kk[3] == c) == n for c, n in miss_contigs.items()) else 'some')
                if no_rejects:
                    mech = 'no_rejects-removed-valid-records'
            elif extra and not missing:
                mech = 'records-duplicated:' + ('unmapped' if all(k[3] is None for k in extra) else 'mapped')
                if no_rejects:
                    mech = 'no_rejects-kept-invalid-records'
            else:
                mech = 'records-lost-and-duplicated'
            acc.violate(mech, f'output differs from input: {sum(missing.values())} records missing (contigs {dict(miss_contigs)}), '
                              f'{sum(extra.values())} extra (contigs {dict(dup_contigs)}); ids missing {miss_ids[:6]} extra {extra_ids[:6]} ({cfg})',
                        dict(wit, missing=[list(map(str, k[:1] + k[3:])) for k in list(missing)[:8]], extra=[list(map(str, k[:1] + k[3:])) for k in list(extra)[:8]],
                             jobs=[e['tasks'] for e in evs]))
        # ---- order, index, read groups
        if not info['sorted'] or info['so'] != 'coordinate':
            acc.violate('output-not-coordinate-sorted', f'sorted={info["sorted"]} SO={info["so"]} ({cfg})', wit)
        if not info['index'] or not os.path.exists(out + '.bai'):
            acc.violate('output-index-missing', f'no usable index next to the output ({cfg})', wit)
        declared = set(x.get('ID') for x in hdr.get('RG', []))
        for a in out_recs:
            if not a.has_tag('RG'):
                acc.violate('record-without-read-group', f'record {a.query_name} has no RG tag ({cfg})', wit)
                break
            if a.get_tag('RG') not in declared:
                acc.violate('read-group-not-declared', f'RG {a.get_tag("RG")} of {a.query_name} is not in the header ({sorted(declared)[:5]}) ({cfg})', wit)
                break
        # ---- history: the tagged file is tagged once more, now with one read group per library (-read_group_format 1). Its records
        # already carry sample, UMI and the read group of the first run; the second output holds the same records, and every record carries
        # a read group that the second header declares
        if case['i'] % 8 == 3 and out_recs:
            out2 = os.path.join(dd, 'out2', 'tagged.bam')
            os.makedirs(os.path.dirname(out2))
            cmd2 = [out, '-o', out2, '-method', method, '-temp_folder', dd, '-read_group_format', '1'] + (['--multiprocess', '-tagthreads', str(threads)] if multi else [])
            exc2, txt2 = T.run_cli(cmd2, eject_every=eject_every)
            acc.count('history:tagged_file_tagged_again_with_other_read_group_format')
            cfg2 = dict(cfg, second_pass='-read_group_format 1 on the output of the first pass')
            if exc2 is not None:
                acc.violate('tagger-raised:' + type(exc2).__name__, f'second pass over the tagged file raised {exc2!r} ({cfg2}); tail: {txt2[-400:]}', wit)
                return acc
            recs2, hdr2, info2 = T.load_records(out2)
            if info2['error']:
                acc.violate('output-unreadable', f'second pass: output BAM unreadable: {info2["error"]} ({cfg2})', wit)
                return acc
            # mate number: claimed when both mates are present - here: for the pairs which the first output still holds as flagged pairs
            # (mates on two contigs and half-mapped pairs leave the first pass as two unpaired records)
            unpaired1 = set(F.id_from_name(a.query_name) for a in out_recs if not a.is_paired)
            mated = lambda a: truths.get(F.id_from_name(a.query_name), {}).get('kind') in MATED and F.id_from_name(a.query_name) not in unpaired1
            k1 = Counter(rec_key(a, mated(a)) for a in out_recs)
            k2 = Counter(rec_key(a, mated(a)) for a in recs2)
            if k1 != k2:
                acc.violate('records-lost-and-duplicated' if (k1 - k2 and k2 - k1) else 'records-lost:some' if k1 - k2 else 'records-duplicated:mapped',
                            f'second pass over the tagged file: {sum((k1 - k2).values())} records missing, {sum((k2 - k1).values())} extra ({cfg2})', dict(wit, missing=[list(map(str, k[:1] + k[3:])) for k in list(k1 - k2)[:8]], extra=[list(map(str, k[:1] + k[3:])) for k in list(k2 - k1)[:8]]))
            if not info2['sorted'] or info2['so'] != 'coordinate':
                acc.violate('output-not-coordinate-sorted', f'second pass: sorted={info2["sorted"]} SO={info2["so"]} ({cfg2})', wit)
            if not info2['index']:
                acc.violate('output-index-missing', f'second pass: no usable index next to the output ({cfg2})', wit)
            declared2 = set(x.get('ID') for x in hdr2.get('RG', []))
            for a in recs2:
                if not a.has_tag('RG'):
                    acc.violate('record-without-read-group', f'second pass: record {a.query_name} has no RG tag ({cfg2})', wit)
                    break
                if a.get_tag('RG') not in declared2:
                    acc.violate('read-group-not-declared', f'second pass: RG {a.get_tag("RG")} of {a.query_name} is not in the header ({sorted(declared2)[:5]}) ({cfg2})', wit)
                    break
        # ---- job table (diagnostic, multiprocess)
        if multi and evs:
            seen = Counter()
            for e in evs:
                for t in e['tasks']:
                    seen[t[0]] += 1
            twice = [c for c, n in seen.items() if n > 1]
            if twice:
                acc.count('jobs:contig_in_two_jobs', len(twice))
            done_order = tuple(e['job'] for e in sorted(evs, key=lambda e: e['done']))
            start_order = tuple(e['job'] for e in sorted(evs, key=lambda e: e['start']))
            if len(evs) > 1:
                acc.count('jobs:finished_out_of_start_order' if done_order != start_order else 'jobs:finished_in_start_order')
        if len(with_reads) >= 2 and kinds.get('unmapped', 0) >= 1:
            acc.sigs.add(f"{case['i']}/{method}/{multi}/{threads}/{no_rejects}/{style}")
        acc.sample = {'config': {k: v for k, v in cfg.items() if k != 'contigs'}, 'contigs': gen.refs, 'input_records': len(recs),
                      'output_records': len(out_recs), 'kinds': dict(kinds), 'jobs': [e['tasks'] for e in evs][:6]}
    return acc
