"""C16 - feature lookups return exactly the overlapping features after any add history.

Monitor: every return value of findFeaturesAt / findFeaturesBetween / findFeaturesAtPysamAlign
(both methods) and of the read-annotation entry points is compared, after every step of a random
add*/sort/query* history, with a brute-force oracle over the list of features added so far.
"""
import itertools
from vlib.common import Acc, rng

PROPERTY = 'C16'
LEVEL = 'exploration'
RULE = ('random histories of 1-4 rounds "add k features; sort; query*": 1-200 features on 1-3 contigs drawn from a dense (0..60) or sparse '
        '(0..5000) coordinate universe with heavy nesting, byte-identical duplicates, zero-length features and strands +,-,None; '
        'after each sort every point of the dense universe (+-3, incl. negative) x strand None/+/- and random ranges are queried, '
        'and earlier queries are repeated on purpose; reads with M/N/D/I/S CIGARs are annotated with both methods of '
        'findFeaturesAtPysamAlign, FeatureAnnotatedMolecule.annotate (0/1) and SingleEndTranscriptFragment.annotate. '
        'A query is non-trivial when the oracle set is non-empty or a feature ends/starts within 1 of the query; '
        'distinct = distinct (history id, round, query).'
        ' Plus coordinate universes just below and beyond 2^31.')
ASSUMPTIONS = ['closed feature intervals [start,end]; a range query [a,b] with a<=b overlaps when max(a,start)<=min(b,end)',
               'a read overlaps a feature when the feature contains at least one aligned reference base (M/=/X)',
               'queries are issued after sort() as in the quantifier (add*/sort/query*); feature coordinates are >= 0',
               'strand convention for FeatureAnnotatedMolecule as documented (None unstranded, False same strand as R1, True other strand); SingleEndTranscriptFragment only checked unstranded']
MIN_NONTRIVIAL = {'quick': 3000, 'thorough': 1000000}
REQUIRED_MONITORS = ['ret:molecule_of_two_fragments.annotate', 'ret:findFeaturesAt', 'ret:findFeaturesBetween', 'ret:findFeaturesAtPysamAlign0', 'ret:findFeaturesAtPysamAlign1',
                     'ret:molecule.annotate0', 'ret:molecule.annotate1', 'ret:fragment.annotate', 'history:second_round_queries', 'universe:near_or_beyond_2^31', 'history:queried_without_explicit_sort', 'history:round_adding_to_one_contig_only', 'reads:aligned_bases_spelled_eq_x_only', 'ret:findFeaturesAt_on_second_container', 'features:same_interval_name_strand_other_data', 'reads:same_span_other_blocks']


def gen_cases(tier, seed):
    n = 64 if tier == 'quick' else 5000
    return [{'i': i, 'seed': seed} for i in range(n)]


def brute_point(feats, contig, x, strand):
    return set(f for f in feats.get(contig, ()) if f[0] <= x <= f[1] and (strand is None or f[3] == strand))


def brute_range(feats, contig, a, b, strand):
    return set(f for f in feats.get(contig, ()) if max(a, f[0]) <= min(b, f[1]) and (strand is None or f[3] == strand))


def brute_positions(feats, contig, positions, strand):
    out = set()
    for f in feats.get(contig, ()):
        if strand is not None and f[3] != strand:
            continue
        if any(f[0] <= p <= f[1] for p in positions):
            out.add(f)
    return out


def near(feats, contig, x):
    return any(abs(f[0] - x) <= 1 or abs(f[1] - x) <= 1 for f in feats.get(contig, ()))


def random_cigar(r, maxlen):
    ops = []
    n = r.randint(1, 4)
    # how aligned bases are spelled: M, the extended = / X (minimap2 --eqx), or a mix
    spelling = r.choice(['M', 'M', 'M', 'eqx', 'mixed'])
    hard = r.random() < 0.15
    if hard:
        ops.append((r.randint(1, 9), 'H'))
    if r.random() < 0.3:
        ops.append((r.randint(1, 4), 'S'))
    for j in range(n):
        ln = r.randint(1, maxlen)
        if spelling == 'M' or (spelling == 'mixed' and r.random() < 0.5):
            ops.append((ln, 'M'))
        else:
            k = r.randint(0, ln - 1)
            for l_, o_ in ((k, '='), (1, 'X'), (ln - k - 1, '=')):
                if l_ and not (ops and ops[-1][1] == o_):
                    ops.append((l_, o_))
                elif l_:
                    ops[-1] = (ops[-1][0] + l_, o_)
        if j < n - 1:
            ops.append((r.randint(1, 12), r.choice('NNDI')))
    if r.random() < 0.3:
        ops.append((r.randint(1, 4), 'S'))
    if hard and r.random() < 0.5:
        ops.append((r.randint(1, 9), 'H'))
    return ''.join(f'{l}{o}' for l, o in ops)


def run_case(case):
    import pysam
    from singlecellmultiomics.features import FeatureContainer
    from singlecellmultiomics.fragment import Fragment, SingleEndTranscriptFragment
    from singlecellmultiomics.molecule import FeatureAnnotatedMolecule
    acc = Acc()
    r = rng(case['seed'], 'C16', case['i'])
    dense = r.random() < 0.7
    U = 60 if dense else 5000
    # genome coordinates are not small numbers: some histories live just below 2^31 or beyond it (32 bit arithmetic in an index would wrap)
    big = r.choice([0, 0, 0, 0, 0, 2 ** 31 - 6000, 3 * 10 ** 9])
    acc.count('universe:near_or_beyond_2^31', 1 if big else 0)
    contigs = ['c1', 'c2', 'c3'][:r.randint(1, 3)]
    header = pysam.AlignmentHeader.from_dict({'HD': {'VN': '1.6'}, 'SQ': [{'SN': c, 'LN': 100000} for c in contigs + ['unseen']]})
    fc = FeatureContainer()
    feats = {}
    # a second container that lives next to the first one (another annotation of the same contigs, as when genes and repeats are loaded side
    # by side): queries to the two are interleaved, each answers from its own features
    twin = FeatureContainer()
    twin_feats = {}
    uid = itertools.count()
    earlier_point_queries = []
    earlier_range_queries = []
    rounds = r.randint(1, 4)
    hist = []

    def violate(kind, what, got, exp, extra):
        got, exp = set(got), set(exp)
        stale = False
        mech = kind + ':' + ('missing-feature' if exp - got and not got - exp else 'extra-feature' if got - exp and not exp - got else 'wrong-set')
        acc.violate(mech, f'{what}: got {sorted(got, key=repr)[:4]} expected {sorted(exp, key=repr)[:4]} (history {hist})',
                    {'what': what, 'got': sorted(map(repr, got))[:10], 'expected': sorted(map(repr, exp))[:10],
                     'features': {c: sorted(map(repr, v))[:60] for c, v in feats.items()}, 'history': hist, **extra})

    # (the second container is complete before the first one starts its history: its own bookkeeping - clearing memos when it changes - must not
    # stand between the first container's additions and the queries that follow)
    for _ in range(r.randint(3, 20)):
        c = r.choice(contigs)
        s_ = r.randint(0, U) + big
        tup = (s_, s_ + r.choice([0, 1, 5, r.randint(0, U)]), f't{next(uid)}', r.choice(['+', '-', None]), f'tid{next(uid)}')
        twin.addFeature(c, tup[0], tup[1], tup[2], strand=tup[3], data=tup[4])
        twin_feats.setdefault(c, set()).add(tup)
    twin.sort()
    for rd in range(rounds):
        k = r.choice([1, 2, 3, 5, 10, 30, 80, 200]) if rd == 0 else r.choice([1, 1, 2, 5, 20])
        # a round may add features to ONE contig only - possibly a contig that had none so far although it was already queried (every round
        # queries the contig 'unseen'): answers given while it was empty must not survive
        only = None
        if rd > 0 and r.random() < 0.4:
            only = r.choice(['unseen', 'unseen', r.choice(contigs)])
            acc.count('history:round_adding_to_one_contig_only')
        for _ in range(k):
            c = only or r.choice(contigs)
            mode = r.random()
            if mode < 0.15 and feats.get(c):
                f0 = r.choice(sorted(feats[c], key=repr))
                tup = f0  # byte-identical duplicate
                if r.random() < 0.5:
                    # same interval, name and strand, other payload (the exon of a second transcript, a second allele): a feature of its own
                    tup = (f0[0], f0[1], f0[2], f0[3], f'id{next(uid)}')
                    acc.count('features:same_interval_name_strand_other_data')
            else:
                if mode < 0.3:
                    s = r.randint(0, U)
                    e = s  # zero length
                elif mode < 0.5 and feats.get(c):
                    p = r.choice(sorted(feats[c], key=repr))  # nested in / sharing an end with an existing one
                    s = r.randint(p[0], p[1])
                    e = r.randint(s, p[1])
                elif mode < 0.6:
                    s = 0
                    e = r.randint(0, U)  # spans a lot
                else:
                    s = r.randint(0, U)
                    e = min(U, s + r.choice([0, 1, 2, 5, 10, r.randint(0, U)]))
                if not (mode < 0.5 and mode >= 0.3 and feats.get(c)):
                    s, e = s + big, e + big      # (nested features are drawn inside an existing, already shifted one)
                tup = (s, e, f'f{next(uid)}', r.choice(['+', '-', '+', '-', None]), f'id{next(uid)}')
            fc.addFeature(c, tup[0], tup[1], tup[2], strand=tup[3], data=tup[4])
            feats.setdefault(c, set()).add(tup)
        # the container (re)builds its index on demand: an explicit sort() after adding is optional
        if r.random() < (0.3 if only is None else 0.7):
            hist.append(f'add{k}{"@" + only if only else ""};(no explicit sort)')
            acc.count('history:queried_without_explicit_sort')
        else:
            fc.sort()
            hist.append(f'add{k};sort')
        # ---- point queries
        pts = list(range(-3, U + 4)) if dense else sorted(set(
            [r.randint(-3, U + 3) for _ in range(40)] + [x + d for f in list(feats.get(contigs[0], ()))[:30] for x in f[:2] for d in (-1, 0, 1)]))
        pts = [x + big for x in pts] if dense else sorted(set([x + big for x in pts if x < big] + [x for x in pts if x >= big]))
        qs = [(c, x, st) for c in contigs + ['unseen'] for x in (pts if c == contigs[0] else r.sample(pts, min(25, len(pts)))) for st in (None, '+', '-')]
        if not dense:
            qs = r.sample(qs, min(len(qs), 300))
        # repeat earlier queries first: these are the ones a memo would answer from the past
        for (c, x, st) in earlier_point_queries + qs:
            got = fc.findFeaturesAt(c, x, st)
            acc.evals += 1
            acc.count('ret:findFeaturesAt')
            if rd > 0:
                acc.count('history:second_round_queries')
            exp = brute_point(feats, c, x, st)
            if set(got) != exp:
                violate('findFeaturesAt', f'findFeaturesAt({c},{x},{st}) in round {rd}', got, exp, {'round': rd})
            if exp or near(feats, c, x):
                acc.sigs.add(f"{case['i']}/{rd}/p/{c}/{x}/{st}")
            if acc.evals % 5 == 0:
                got_t = twin.findFeaturesAt(c, x, st)
                acc.count('ret:findFeaturesAt_on_second_container')
                exp_t = brute_point(twin_feats, c, x, st)
                if set(got_t) != exp_t:
                    g_, e_ = set(got_t), exp_t
                    acc.violate('second-container:' + ('answer-of-the-other-container' if (g_ - e_) and (g_ - e_) <= brute_point(feats, c, x, st) else 'wrong-set'),
                                f'second container findFeaturesAt({c},{x},{st}) in round {rd}: got {sorted(g_, key=repr)[:4]} expected {sorted(e_, key=repr)[:4]}',
                                {'round': rd, 'history': hist})
        earlier_point_queries = r.sample(qs, min(len(qs), 120))
        # ---- range queries
        rq = []
        for _ in range(120):
            c = r.choice(contigs)
            a = r.randint(-3, U + 3) + big
            b = a + r.choice([0, 1, 2, 5, r.randint(0, U)])
            rq.append((c, a, b, r.choice([None, '+', '-'])))
        for (c, a, b, st) in earlier_range_queries + rq:
            got = fc.findFeaturesBetween(c, a, b, st)
            acc.evals += 1
            acc.count('ret:findFeaturesBetween')
            exp = brute_range(feats, c, a, b, st)
            if set(got) != exp:
                violate('findFeaturesBetween', f'findFeaturesBetween({c},{a},{b},{st}) in round {rd}', got, exp, {'round': rd})
            if exp or near(feats, c, a) or near(feats, c, b):
                acc.sigs.add(f"{case['i']}/{rd}/r/{c}/{a}/{b}/{st}")
        earlier_range_queries = r.sample(rq, 40)
        # ---- reads
        prev_read = [None]
        prev_seg = [None]
        for j in range(25 if big < 2 ** 31 else 0):     # an alignment position is a 32 bit number
            c = r.choice(contigs)
            a = pysam.AlignedSegment(header)
            a.query_name = f'read{j}'
            a.reference_id = contigs.index(c)
            a.reference_start = r.randint(0, U) + big
            a.cigarstring = random_cigar(r, 8 if dense else 200)
            if j % 2 == 1 and prev_read[0] is not None:
                # a second read with exactly the span of the previous one but without its gaps (an unspliced read next to a spliced one): it is
                # annotated by its own aligned bases
                c, st_, ln_ = prev_read[0]
                a.reference_id = contigs.index(c)
                a.reference_start = st_
                a.cigarstring = f'{ln_}M'
                acc.count('reads:same_span_other_blocks')
            prev_read[0] = (c, a.reference_start, a.reference_length)
            ql = a.infer_query_length()
            a.query_sequence = 'A' * ql
            a.query_qualities = [30] * ql
            rev = r.random() < 0.5
            a.flag = 16 if rev else 0
            a.mapping_quality = 60
            a.set_tag('SM', 'cell')
            a.set_tag('RX', 'ACG')
            positions = [p for _, p in a.get_aligned_pairs(matches_only=True)]
            desc = {'contig': c, 'pos': a.reference_start, 'cigar': a.cigarstring, 'reverse': rev}
            if 'M' not in a.cigarstring:
                acc.count('reads:aligned_bases_spelled_eq_x_only')
            for st in (None, '+', '-'):
                exp = brute_positions(feats, c, positions, st)
                for method in (0, 1):
                    got = fc.findFeaturesAtPysamAlign(a, strand=st, method=method)
                    acc.evals += 1
                    acc.count(f'ret:findFeaturesAtPysamAlign{method}')
                    if set(got) != exp:
                        violate(f'findFeaturesAtPysamAlign{method}', f'findFeaturesAtPysamAlign(method={method}, strand={st}) read {desc}', got, exp,
                                {'read': desc, 'round': rd})
                if exp or any(near(feats, c, p) for p in (positions[0], positions[-1])):
                    acc.sigs.add(f"{case['i']}/{rd}/a/{desc}/{st}")
            for stranded in (None, False, True):
                if stranded is None:
                    st = None
                else:
                    r1_strand = '-' if rev else '+'
                    st = r1_strand if stranded is False else ('+' if rev else '-')
                exp_ids = set(f[4] for f in brute_positions(feats, c, positions, st))
                for method in (0, 1):
                    m = FeatureAnnotatedMolecule(Fragment([a]), features=fc, stranded=stranded)
                    m.annotate(method)
                    acc.evals += 1
                    acc.count(f'ret:molecule.annotate{method}')
                    got_ids = set(m.hits.keys())
                    if got_ids != exp_ids:
                        violate(f'molecule.annotate{method}', f'FeatureAnnotatedMolecule(stranded={stranded}).annotate({method}) read {desc}',
                                got_ids, exp_ids, {'read': desc, 'round': rd})
            if j % 2 == 1 and prev_seg[0] is not None and prev_seg[0].reference_id == a.reference_id:
                # a molecule of two fragments: the previous read (with its gaps) and this one over the same span - blocks of one read lie inside
                # a block of the other; the molecule is annotated by the union of the aligned bases of both
                pa = prev_seg[0]
                both = sorted(set(positions) | set(p for _, p in pa.get_aligned_pairs(matches_only=True)))
                same_strand = bool(pa.flag & 16) == rev
                for stranded in ((None, False, True) if same_strand else (None,)):
                    if stranded is None:
                        st = None
                    else:
                        st = ('-' if rev else '+') if stranded is False else ('+' if rev else '-')
                    exp_ids = set(f[4] for f in brute_positions(feats, c, both, st))
                    for method in (0, 1):
                        for order in ((pa, a), (a, pa)):
                            m = FeatureAnnotatedMolecule(Fragment([order[0]]), features=fc, stranded=stranded)
                            m._add_fragment(Fragment([order[1]]))
                            m.annotate(method)
                            acc.evals += 1
                            acc.count('ret:molecule_of_two_fragments.annotate')
                            got_ids = set(m.hits.keys())
                            if got_ids != exp_ids:
                                violate(f'molecule.annotate{method}', f'FeatureAnnotatedMolecule(stranded={stranded}) of two fragments ({pa.reference_start}:{pa.cigarstring} and '
                                                                       f'{a.reference_start}:{a.cigarstring}).annotate({method})', got_ids, exp_ids, {'read': desc, 'round': rd})
            prev_seg[0] = a
            s = SingleEndTranscriptFragment([a], features=fc, stranded=None, auto_set_intron_exon_features=False)
            s.annotate()
            acc.evals += 1
            acc.count('ret:fragment.annotate')
            got_ids = set(s.hits.keys())
            exp_ids = set(f[4] for f in brute_positions(feats, c, positions, None))
            if got_ids != exp_ids:
                violate('fragment.annotate', f'SingleEndTranscriptFragment.annotate read {desc}', got_ids, exp_ids, {'read': desc, 'round': rd})
    acc.sample = {'history': hist, 'contigs': contigs, 'universe': U,
                  'features_first': sorted(map(repr, feats[contigs[0]]))[:5] if contigs[0] in feats else [],
                  'n_features': sum(len(v) for v in feats.values())}
    return acc
