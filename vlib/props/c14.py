"""C14 - TAPS methylation calls reflect reference context and observed conversion.

Monitor: molecule.methylation_call_dict after __finalise__ and the XM / MC / uC / sZ / sz / sX / sx / sH / sh tags on the
reads, for TAPS molecules assembled from simulated fragments on random references with random methylation patterns,
compared with an independent caller (consensus from the C13 vote oracle restricted to the expected reference base and
the mate-overlap-safe span; context letter from the true reference).
"""
import os
from collections import Counter
from vlib.common import Acc, rng, Scratch
from vlib.sim.bam import make_seg, make_header, revcomp
from vlib.sim.frags import md_nm
from vlib.props.c13 import oracle as vote_oracle

PROPERTY = 'C14'
LEVEL = 'exploration'
RULE = ('random references (60-400 bp, optional N bases, C/G placed in the first / last two bases) with a random methylation pattern; molecules of '
        '1..6 fragments on either strand under both TAPS strand conventions, paired, dove-tailed, single-end, with sequencing errors; every '
        'entry of methylation_call_dict and every tag is compared. Non-trivial = molecule with at least one methylated and one unmethylated '
        'call; distinct = distinct (case seed).'
        ' Plus one TAPS caller serving several references, references without any convertible base, reads with deletions, molecules of 255-300 stacked fragments, soft-masked (lower-case) reference stretches, an earlier molecule called with its own consensus options.')
ASSUMPTIONS = ['the molecule consensus is the C13 vote restricted to positions whose reference base is the expected convertible base',
               'context letters: CG->z, C[ACT]G->x, C[ACT][ACT]->h, anything truncated by the contig end or containing a non-ACGT base -> "."']
MIN_NONTRIVIAL = {'quick': 200, 'thorough': 25000}
REQUIRED_MONITORS = ['obs:call_dict_entries', 'obs:reads_with_XM', 'ctx:z', 'ctx:x', 'ctx:h', 'ctx:upper', 'ctx:dot', 'edge:contig_end_calls',
                     'strand:reverse', 'convention:F', 'convention:R', 'history:caller_reused_on_other_reference', 'obs:reads_of_molecules_without_calls', 'lib:deep_molecules', 'lib:reads_with_deletion', 'reference:soft_masked', 'history:earlier_molecule_with_own_consensus_options']
SHARD_TIMEOUT = {'quick': 900, 'thorough': 5400}


def gen_cases(tier, seed):
    n = 400 if tier == 'quick' else 40000
    return [{'i': i, 'seed': seed} for i in range(n)]


def context_letter(ref, p, refbase, qbase):
    if refbase == 'C':
        ctx = ref[p:p + 3]
        meth = True if qbase == 'T' else False if qbase == 'C' else None
    else:
        if p - 2 < 0:
            return '.'
        ctx = revcomp(ref[p - 2:p + 1]) if all(c in 'ACGTN' for c in ref[p - 2:p + 1]) else 'XXX'
        meth = True if qbase == 'A' else False if qbase == 'G' else None
    if meth is None or len(ctx) != 3 or any(c not in 'ACGT' for c in ctx) or ctx[0] != 'C':
        return '.'
    if ctx[1] == 'G':
        l = 'z'
    elif ctx[2] == 'G':
        l = 'x'
    else:
        l = 'h'
    return l.upper() if meth else l


def run_case(case):
    from singlecellmultiomics.molecule import TAPS
    acc = Acc()
    r = rng(case['seed'], 'C14', case['i'])
    # history: one TAPS caller serves several references in its life time (several runs of an API user, several genomes that share
    # contig names); each molecule is judged against the reference it was called on
    rounds = r.choice([1, 1, 2, 3])
    taps = TAPS()
    for rnd in range(rounds):
        if rnd:
            acc.count('history:caller_reused_on_other_reference')
        one_reference(case, acc, r, taps, rnd)
        if acc.violations:
            break
    return acc


def one_reference(case, acc, r, taps, rnd):
    import pysam
    from singlecellmultiomics.fragment import Fragment, NlaIIIFragment
    from singlecellmultiomics.molecule import TAPS, TAPSMolecule
    deep = case['i'] % 40 == 7 and rnd == 0
    L = r.choice([60, 120, 250, 400]) if not deep else 60
    ref = list(''.join(r.choices('ACGT', k=L)))
    if r.random() < 0.3:
        for _ in range(r.randint(1, 4)):
            ref[r.randrange(L)] = 'N'
    # C / G at the contig ends
    for p in (0, 1, L - 2, L - 1):
        if r.random() < 0.6:
            ref[p] = r.choice('CG')
    ref = ''.join(ref)
    reverse = r.random() < 0.5
    conv = r.choice(['F', 'R'])
    acc.count('convention:' + conv)
    acc.count('strand:reverse', 1 if reverse else 0)
    for k in ('convention:F', 'convention:R', 'edge:contig_end_calls'):
        acc.count(k, 0)
    expected_base = (('G' if reverse else 'C') if conv == 'F' else ('C' if reverse else 'G'))
    converted_to = 'T' if expected_base == 'C' else 'A'
    if r.random() < 0.1:
        # a stretch without any convertible base: the molecule has no call at all, its reads still get an all-'.' call string and zero totals
        ref = ref.replace(expected_base, 'A')
    meth = {p for p, c in enumerate(ref) if c == expected_base and r.random() < 0.5}
    n = r.choice([1, 1, 2, 3, 4, 6])
    if deep:
        n = r.choice([255, 256, 257, 258, 300])     # a deeply sequenced molecule: every position is covered by every fragment, the vote counters pass 255 / 256
        acc.count('lib:deep_molecules')
    frags = []
    covers_edge = r.random() < 0.5
    for fid in range(n):
        kind = r.choice(['pair'] * 6 + ['single', 'dove'])
        l1, l2 = r.randint(15, 35), r.randint(15, 35)
        span = r.randint(max(l1, l2), min(L, 90))
        start = r.choice([0, 0, L - span]) if covers_edge else r.randint(0, L - span)
        if deep:
            kind, l1, l2, span, start = 'pair', 35, 35, L, 0
        end = start + span
        if not reverse:
            r1s, r1e, r2s, r2e = start, start + l1, end - l2, end
            if kind == 'dove':
                r2s = max(0, start - r.randint(1, 5)) if start > 0 else start
                r2e = min(L, r2s + l2)
        else:
            r1s, r1e, r2s, r2e = end - l1, end, start, start + l2
            if kind == 'dove':
                r2e = min(L, end + r.randint(1, 5))
                r2s = r2e - l2
        recs = []
        for who, (a, b) in ((1, (r1s, r1e)), (2, (r2s, r2e))):
            a, b = max(0, a), min(L, b)
            sub = ref[a:b]
            seq = []
            for i, c in enumerate(sub):
                p = a + i
                if p in meth and r.random() < 0.9:
                    seq.append(converted_to)
                elif r.random() < 0.03:
                    seq.append(r.choice('ACGTN'))
                else:
                    seq.append(c if c != 'N' else r.choice('ACGT'))
            seq = ''.join(seq)
            md, nm = md_nm(sub, seq)
            cigar = f'{len(seq)}M'
            if not deep and len(seq) >= 16 and r.random() < 0.15:
                # a deletion inside the read: the aligned bases (and the per-read call string) skip the deleted reference bases
                o_ = r.randint(5, len(seq) - 8)
                d_ = r.randint(1, 3)
                md1, nm1 = md_nm(sub[:o_], seq[:o_])
                md2, nm2 = md_nm(sub[o_ + d_:], seq[o_ + d_:])
                md, nm = md1 + '^' + sub[o_:o_ + d_] + md2, nm1 + nm2 + d_
                seq = seq[:o_] + seq[o_ + d_:]
                cigar = f'{o_}M{d_}D{len(seq) - o_}M'
                acc.count('lib:reads_with_deletion')
            rev = reverse if who == 1 else (not reverse)
            flag = 1 | 2 | (64 if who == 1 else 128) | (16 if rev else 0) | (32 if not rev else 0)
            recs.append({'name': f'f{fid}', 'flag': flag, 'tid': 0, 'pos': a, 'mapq': 60, 'cigar': cigar, 'seq': seq,
                         'qual': [r.choice([20, 30, 30, 37, 0, 0, 2]) for _ in seq] if r.random() < 0.5 else [r.choice([30, 30, 30, 0])] * len(seq),
                         'tags': {'MD': md, 'NM': nm, 'SM': 'cell', 'RX': 'ACG'}, 'next_tid': 0, 'next_pos': 0})
        if kind == 'single':
            recs[1] = None
            recs[0]['flag'] = 64 | (16 if reverse else 0)
        frags.append({'kind': kind, 'recs': recs})
    with Scratch('c14') as dd:
        fa = os.path.join(dd, 'ref.fa')
        fa_seq = ref
        if case['i'] % 3 == 1:
            # a soft-masked reference: repeats are written in lower case (UCSC / Ensembl style); the bases are the same bases
            fa_seq = list(ref)
            for _ in range(r.randint(1, 4)):
                a0 = r.randrange(L)
                for p in range(a0, min(L, a0 + r.choice([1, 2, 3, 10, 40, L]))):
                    fa_seq[p] = fa_seq[p].lower()
            fa_seq = ''.join(fa_seq)
            acc.count('reference:soft_masked')
        with open(fa, 'w') as f:
            f.write('>chr1\n' + fa_seq + '\n')
        pysam.faidx(fa)
        header = make_header([('chr1', L)])
        with pysam.FastaFile(fa) as reference:
            if case['i'] % 4 == 2 and frags:
                # history: an earlier molecule of this process was called with its own consensus options (quality threshold, bases masked near
                # the mate ends); the options belong to that molecule only
                other = TAPSMolecule(taps=taps, taps_strand=conv, reference=reference,
                                     methylation_consensus_kwargs={'min_phred_score': r.choice([20, 30, 38]), 'dove_R2_distance': r.choice([4, 12]),
                                                                   'dove_R1_distance': r.choice([0, 8]), 'skip_first_n_cycles_R1': r.choice([0, 5])})
                other._add_fragment(Fragment([make_seg(header, rec) if rec is not None else None for rec in frags[0]['recs']], umi_hamming_distance=0))
                try:
                    other.__finalise__()
                except Exception:
                    pass
                acc.count('history:earlier_molecule_with_own_consensus_options')
            m = TAPSMolecule(taps=taps, taps_strand=conv, reference=reference)
            for fr in frags:
                reads = [make_seg(header, rec) if rec is not None else None for rec in fr['recs']]
                m._add_fragment(Fragment(reads, umi_hamming_distance=0))
            wit = {'reference': ref, 'reference_as_written': fa_seq, 'round_with_the_same_caller': rnd, 'reverse': reverse, 'convention': conv, 'expected_base': expected_base, 'methylated_positions': sorted(meth)[:40],
                   'fragments': [[(x['flag'], x['pos'], x['seq']) if x else None for x in f['recs']] for f in frags]}
            try:
                m.__finalise__()
            except Exception as ex:
                acc.violate('finalise-raised:' + type(ex).__name__, f'__finalise__ raised {ex!r}', wit)
                return acc
            acc.evals += 1
            got = m.methylation_call_dict
            cons, _, _ = vote_oracle(frags, True, pos_filter=lambda p: ref[p] == expected_base)
            exp = {p: context_letter(ref, p, expected_base, b) for p, b in cons.items()}
            if got is None:
                got = {}
                if exp:
                    acc.violate('no-call-dict', 'methylation_call_dict is None although calls are expected', wit)
            gotd = {k[1]: v for k, v in got.items()}
            acc.count('obs:call_dict_entries', len(gotd))
            for p in sorted(set(gotd) | set(exp)):
                if p not in exp:
                    refb = ref[p]
                    mech = 'call-on-wrong-reference-base' if refb != expected_base else 'call-outside-safe-span-or-without-majority'
                    acc.violate(mech, f'call at {p} (ref {refb}, entry {gotd[p]}) not expected; expected base {expected_base}', dict(wit, position=p))
                    continue
                if p not in gotd:
                    acc.violate('expected-call-missing', f'no call at {p} (ref {ref[p]}, consensus {cons[p]}, expected letter {exp[p]})', dict(wit, position=p))
                    continue
                e = gotd[p]
                if e.get('consensus') != cons[p]:
                    acc.violate('call-consensus-base-wrong', f'position {p}: consensus {e.get("consensus")} expected {cons[p]}', dict(wit, position=p))
                if e.get('context') != exp[p]:
                    letter_got, letter_exp = e.get('context'), exp[p]
                    if str(letter_got).lower() == letter_exp.lower():
                        mech = 'conversion-case-wrong'
                    elif '.' in (letter_got, letter_exp):
                        mech = 'context-dot-mismatch'
                    else:
                        mech = 'context-letter-wrong'
                    acc.violate(mech, f'position {p} ref context {ref[max(0, p - 2):p + 3]!r} consensus {cons[p]}: letter {letter_got!r} expected {letter_exp!r} '
                                      f'(strand {"-" if reverse else "+"}, convention {conv})', dict(wit, position=p))
                if e.get('reference_base') != expected_base:
                    acc.violate('call-reference-base-wrong', f'position {p}: reference_base {e.get("reference_base")} expected {expected_base}', wit)
                if p < 2 or p >= L - 2:
                    acc.count('edge:contig_end_calls')
            cnt = Counter(exp.values())
            for l in 'zxh':
                acc.count('ctx:' + l, cnt[l] + cnt[l.upper()])
            acc.count('ctx:upper', sum(v for k, v in cnt.items() if k.isupper()))
            acc.count('ctx:dot', cnt['.'])
            # ---- tags on the reads
            totals = {'MC': cnt['Z'] + cnt['X'] + cnt['H'], 'uC': cnt['z'] + cnt['x'] + cnt['h'], 'sZ': cnt['Z'], 'sz': cnt['z'], 'sX': cnt['X'], 'sx': cnt['x'],
                      'sH': cnt['H'], 'sh': cnt['h']}
            for read in m.iter_reads():
                if not exp:
                    acc.count('obs:reads_of_molecules_without_calls')
                acc.count('obs:reads_with_XM')
                positions = [rp for qp, rp in read.get_aligned_pairs(matches_only=True)]
                xm = read.get_tag('XM') if read.has_tag('XM') else None
                exp_xm = ''.join(exp.get(p, '.') for p in positions)
                if xm is None or len(xm) != len(positions):
                    acc.violate('XM-length-differs-from-aligned-bases', f'read {read.query_name}: XM {xm!r} for {len(positions)} aligned bases', wit)
                elif xm != exp_xm:
                    acc.violate('XM-differs-from-calls', f'read {read.query_name} at {read.reference_start}: XM {xm} expected {exp_xm}', wit)
                for t, v in totals.items():
                    gv = read.get_tag(t) if read.has_tag(t) else None
                    if gv != v:
                        acc.violate('total-tag-wrong:' + t, f'read {read.query_name}: {t}={gv} expected {v} (calls {dict(cnt)})', wit)
                        break
            if any(k.isupper() for k in cnt) and any(k.islower() for k in cnt):
                acc.sigs.add(f"{case['i']}/{rnd}")
            acc.sample = {'reference_length': L, 'reverse': reverse, 'convention': conv, 'expected_base': expected_base, 'fragments': n,
                          'calls': dict(cnt), 'example_calls': {p: exp[p] for p in sorted(exp)[:6]}}
    return acc
