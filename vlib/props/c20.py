"""C20 - the status marker reports success only for a complete, sorted, indexed output.

Monitor: a clean run of the real tagger under a step tracer records the step trace (entry / return of every
pipeline step, per process). Then one run per (process, step, occurrence, before/after) and fault kind (raise
RuntimeError, os._exit(1), SIGKILL of the process group) with the fault injected exactly there. After the process
is gone (or the watchdog killed a hung pool - the verdict never depends on termination) the status file is read:
a success marker implies an existing, untruncated, coordinate sorted, indexed output containing every record.
"""
import os
import sys
import json
import signal
import subprocess
from collections import Counter
from vlib.common import Acc, rng, Scratch, PY, VERIF
from vlib.sim import frags as F
from vlib.sim.bam import write_bam

PROPERTY = 'C20'
LEVEL = 'fault_enumeration'
RULE = ('fault enumeration over the recorded step trace of the single-process and the --multiprocess (2 workers) pipeline, methods nla and chic, '
        '3 library sizes: every (process, step, occurrence, before/after) x {raise, _exit, SIGKILL} in the thorough tier, a seeded subset in the '
        'quick tier. Steps: write_status, k-th molecule written, add_readgroups_to_header, replace_bam_header, pysam.sort, pysam.index, '
        'pysam.merge, os.rename, os.remove, shutil.move, shutil.rmtree, merge_bams, per-job run_tagging_tasks in the workers. '
        'Non-trivial = injected run in which the fault actually fired; distinct = distinct (configuration, fault point, kind).'
        ' Plus persistent faults (every attempt of a step fails), exception classes RuntimeError / OSError / ValueError / MemoryError, and runs over the copied output (BAM, index, success marker) of an earlier run with faults in the set-up phase; assemblies of >100 small and of >500 large contigs that all carry reads.')
ASSUMPTIONS = ['failpoints sit at python-level step boundaries; a crash inside one htslib call is not split further',
               'a hung pool after a dead worker is killed by the watchdog and judged on the files it left (no liveness claim)',
               'the clean run must report success, otherwise the case is inconclusive']
MIN_NONTRIVIAL = {'quick': 50, 'thorough': 1500}
REQUIRED_MONITORS = ['history:input_index_older_than_the_input_by_less_than_a_second', 'stale_index:success_reported', 'trace:steps_recorded', 'fault:fired', 'fault:raise', 'fault:exit', 'fault:kill', 'fault:persistent', 'history:stale_success_of_earlier_run', 'layout:more_than_100_small_contigs', 'layout:more_than_500_large_contigs', 'layout:last_small_contig_holds_supplementary_records_only', 'layout:contig_with_placed_unmapped_pairs_only', 'option:skip_contig', 'names:runs', 'names:success_reported', 'names:refused_or_failed_without_success_marker', 'fault:class:OSError', 'fault:class:RuntimeError', 'oracle:status_read', 'oracle:success_verified',
                     'clean:success', 'pipeline:single', 'pipeline:multi', 'fault:in_worker']
SHARD_TIMEOUT = {'quick': 1200, 'thorough': 14400}
SUCCESS = 'Reached end. All ok!'


def gen_cases(tier, seed):
    cases = []
    combos = [(m, mp, s) for m in ('nla', 'chic') for mp in (False, True) for s in (0, 1, 2)]
    if tier == 'quick':
        # one library size per (method, pipeline), rotated by the seed so that repeated quick runs cover all of them
        combos = [(m, mp, (seed + i) % 3) for i, (m, mp) in enumerate([(m, mp) for m in ('nla', 'chic') for mp in (False, True)])]
    for method, multi, size in combos:
        ci = ('nla', 'chic').index(method) * 6 + int(multi) * 3 + size
        nsh = 4 if tier == 'quick' else 16
        for part in range(nsh):
            cases.append({'cfg': ci, 'method': method, 'multi': multi, 'size': size, 'part': part, 'parts': nsh, 'seed': seed, 'tier': tier})
    # an assembly with far more than a hundred small contigs that carry reads (one shared worker job): the fault-free run and a few faults
    for k, method in enumerate(('nla', 'chic') if tier == 'thorough' else (('nla', 'chic')[seed % 2],)):
        cases.append({'cfg': 90 + k, 'method': method, 'multi': True, 'size': 3, 'part': 0, 'parts': 1, 'seed': seed, 'tier': tier, 'many_contigs': True})
    # a scaffold-level assembly: more than 500 contigs of >= 100 kb that all carry reads - one worker job and one intermediate file each
    for k, method in enumerate(('nla', 'chic') if tier == 'thorough' else (('chic', 'nla')[seed % 2],)):
        cases.append({'cfg': 95 + k, 'method': method, 'multi': True, 'size': 0, 'part': 0, 'parts': 1, 'seed': seed, 'tier': tier, 'many_contigs': True,
                      'many_large': True})
    # output names in the forms users type them: other letter case of the extension, dots and spaces in directory names
    for k in range(3 if tier == 'quick' else 12):
        cases.append({'kind': 'output_names', 'cfg': 70 + k, 'method': ('nla', 'chic')[k % 2], 'multi': bool((k // 2) % 2), 'seed': seed, 'tier': tier})
    # history of the input: an index next to it that is older than the file by less than a second and describes an earlier content
    for k in range(2 if tier == 'quick' else 8):
        cases.append({'kind': 'stale_input_index', 'cfg': 80 + k, 'method': ('nla', 'chic')[k % 2], 'multi': True, 'seed': seed, 'tier': tier})
    return cases


class SparseGenome(F.Genome):
    """contigs whose first 2 kb are random and whose remainder is filler: hundreds of 100 kb contigs without generating every base"""
    def get(self, name):
        if name not in self.seq:
            ln = dict(self.refs)[name]
            self.seq[name] = F.scrub_catg(F.rand_dna(self.r, min(ln, 2000)), self.r) + 'A' * max(0, ln - 2000)
        return self.seq[name]


def run_driver(spec, dd, tag, timeout=120):
    spec_path = os.path.join(dd, f'spec_{tag}.json')
    with open(spec_path, 'w') as f:
        json.dump(spec, f)
    env = dict(os.environ)
    env['PYTHONPATH'] = VERIF + os.pathsep + env.get('PYTHONPATH', '')
    p = subprocess.Popen([PY, os.path.join(VERIF, 'vlib', 'c20_driver.py'), spec_path], cwd=dd, env=env,
                         stdout=subprocess.DEVNULL, stderr=subprocess.DEVNULL, start_new_session=True)
    hung = False
    try:
        p.wait(timeout=timeout)
    except subprocess.TimeoutExpired:
        hung = True
    try:
        os.killpg(p.pid, signal.SIGKILL)   # also reaps pool workers left behind
    except Exception:
        pass
    p.wait()
    return p.returncode, hung


def read_trace(path):
    evs = []
    if os.path.exists(path):
        for line in open(path):
            line = line.strip()
            if line:
                try:
                    evs.append(json.loads(line))
                except Exception:
                    pass
    return evs


def verify_output(out, expect_ids):
    """-> (ok, reason)"""
    import pysam
    if not os.path.exists(out):
        return False, 'output BAM does not exist'
    try:
        with pysam.AlignmentFile(out) as f:
            hdr = f.header.to_dict()
            got = Counter()
            last = None
            srt = True
            for a in f.fetch(until_eof=True):
                key = (a.reference_id if a.reference_id >= 0 else 1 << 30, a.reference_start)
                if last is not None and key < last:
                    srt = False
                last = key
                if a.is_secondary or a.is_supplementary:
                    continue    # outside the claim: the mate pairing drops them
                got[(F.id_from_name(a.query_name), 2 if a.is_read2 else 1)] += 1
    except Exception as ex:
        return False, f'output unreadable / truncated: {ex!r}'
    if hdr.get('HD', {}).get('SO') != 'coordinate' or not srt:
        return False, 'output is not coordinate sorted'
    if not os.path.exists(out + '.bai'):
        return False, 'index file missing'
    try:
        with pysam.AlignmentFile(out) as f:
            if not f.check_index():
                return False, 'index not usable'
            list(f.fetch(f.references[0]))
    except Exception as ex:
        return False, f'index not loadable: {ex!r}'
    if got != expect_ids:
        return False, f'records differ: {sum((expect_ids - got).values())} missing, {sum((got - expect_ids).values())} extra'
    return True, ''


def run_output_names(case):
    """Whatever the output is called: after the run, a file that says the run finished successfully exists only next to a complete, sorted, indexed
    output. A name the tool does not accept has to be refused (no success marker anywhere)."""
    acc = Acc()
    r = rng(case['seed'], 'C20', 'names', case['cfg'])
    method, multi = case['method'], case['multi']
    gen, recs, truths = F.simulate_library(r, method=method, contigs=[('chr1', 20000), ('chr2', 9000)], n_cells=2, n_sites=4, umis_per_site=(1, 2), copies=(1, 2),
                                           case_id=900 + case['cfg'], n_unmapped=1)
    expect = Counter()
    for rec in recs:
        expect[(F.id_from_name(rec['name']), 2 if rec['flag'] & 128 else 1)] += 1
    with Scratch('c20n') as dd:
        bam = write_bam(os.path.join(dd, 'in.bam'), gen.refs, recs)
        for oi, oname in enumerate(['tagged.BAM', 'tagged.Bam', 'run.1/tag.ged.bam', 'my out/tagged.bam', 'tagged.bam.bam', 'TAGGED.bam'][case['cfg'] % 2::2]):
            sub = os.path.join(dd, f'o{oi}')
            out = os.path.join(sub, oname)
            os.makedirs(os.path.dirname(out))
            spec = {'bam': bam, 'method': method, 'multiprocess': multi, 'threads': 2, 'temp': sub, 'out': out, 'trace_file': os.path.join(sub, 'trace.jsonl'), 'fault': None}
            rc, hung = run_driver(spec, sub, f'n{oi}', timeout=300)
            acc.evals += 1
            acc.count('names:runs')
            markers = []
            for root_, _, files_ in os.walk(sub):
                for fn_ in files_:
                    p_ = os.path.join(root_, fn_)
                    if fn_.endswith('.jsonl') or fn_.startswith('spec_'):
                        continue
                    try:
                        with open(p_, 'rb') as fh:
                            head = fh.read(4096)
                    except OSError:
                        continue
                    if SUCCESS.encode() in head:
                        markers.append(p_)
            acc.count('oracle:status_read')
            if not markers:
                acc.count('names:refused_or_failed_without_success_marker')
                continue
            acc.count('names:success_reported')
            ok, why = verify_output(out, expect)
            acc.count('oracle:success_verified')
            if not ok:
                acc.violate('success-marker-but-output-bad:output-name', f'-o {oname!r}: {os.path.relpath(markers[0], sub)} says the run finished successfully but {why} '
                                                                         f'(method {method}, multiprocess {multi})', {'output_name': oname, 'marker': os.path.relpath(markers[0], sub)})
            acc.sigs.add(f"names/{case['cfg']}/{oname}")
    acc.sample = {'output_names': True, 'method': method, 'multiprocess': multi}
    return acc


def run_stale_input_index(case):
    """The input was written and indexed, and written again with more reads on its first contig within the same second of the clock: the index
    is older than the file (by half a second) and describes the earlier content. All records have the same size, so what the old index points
    at are still record boundaries - nothing fails while reading. Whatever the tool does with it: a success marker only next to a complete output."""
    import time as _time
    acc = Acc()
    r = rng(case['seed'], 'C20', 'stale_input_index', case['cfg'])
    method = case['method']
    contigs = [('chr1', 30000), ('chr2', 30000), ('chr3', 9000)][:r.randint(2, 3)]
    gen = F.Genome(r, contigs)
    recs = []
    rid = 100
    for name, ln in contigs:
        for _ in range(r.randint(3, 6)):
            pos = r.randrange(500, ln - 500)
            if method == 'nla':
                if 'CATG' in gen.get(name)[pos - 45:pos + 45]:
                    continue
                gen.plant(name, pos)
            for _copy in range(r.randint(1, 2)):
                fr, tr = F.make_fragment(gen, r, rid, 900 + case['cfg'], method, r.randint(1, 2), name, pos, r.random() < 0.5, F.rand_dna(r, 3), 100, single_end=True)
                if fr is not None:
                    recs.extend(fr)
                    rid += 1
    sizes = set((len(x['name']), len(x['seq']), x['cigar'], tuple(sorted((k, len(str(v))) for k, v in x['tags'].items()))) for x in recs)
    if case['cfg'] % 4 < 2:
        # ... and an unmapped read at the end of both versions of the file
        u = F.unmapped_pair(r, rid, 900 + case['cfg'], 1, F.rand_dna(r, 3), mx=F.MX_NLA if method == 'nla' else F.MX_CHIC_TRIMMED)[:1]
        u[0]['flag'] = 4
        recs.extend(u)
    acc.count('stale_index:libraries_with_records_of_one_size', 1 if len(sizes) == 1 else 0)
    expect = Counter((F.id_from_name(x['name']), 1) for x in recs)
    with Scratch('c20s') as dd:
        write_bam(os.path.join(dd, 'in.bam'), gen.refs, [x for x in recs if x.get('tid', -1) != 0])
        bam = write_bam(os.path.join(dd, 'in.bam'), gen.refs, recs, index=False)
        t0 = int(_time.time()) - 120
        os.utime(bam + '.bai', (t0 + 0.2, t0 + 0.2))
        os.utime(bam, (t0 + 0.7, t0 + 0.7))
        acc.count('history:input_index_older_than_the_input_by_less_than_a_second')
        sub = os.path.join(dd, 'run')
        os.makedirs(sub)
        out = os.path.join(sub, 'tagged.bam')
        spec = {'bam': bam, 'method': method, 'multiprocess': True, 'threads': 2, 'temp': sub, 'out': out, 'trace_file': os.path.join(sub, 'trace.jsonl'), 'fault': None}
        rc, hung = run_driver(spec, sub, 'stale', timeout=300)
        acc.evals += 1
        status_path = out.replace('.bam', '.status.txt')
        status = open(status_path).read().strip() if os.path.exists(status_path) else None
        acc.count('oracle:status_read')
        if status is not None and SUCCESS in status:
            acc.count('stale_index:success_reported')
            ok, why = verify_output(out, expect)
            acc.count('oracle:success_verified')
            if not ok:
                acc.violate('success-marker-but-output-bad:stale-input-index', f'input with an index older than the file by 0.5 s (earlier content: without the reads of '
                                                                               f'{contigs[0][0]}): the status file says the run finished successfully but {why} (method {method})',
                            {'contigs': contigs, 'records': len(recs), 'method': method})
        else:
            acc.count('stale_index:failed_without_success_marker')
        acc.sigs.add(f"stale_index/{case['cfg']}")
    acc.sample = {'stale_input_index': True, 'method': method, 'records': len(recs), 'status': status}
    return acc


def run_case(case):
    if case.get('kind') == 'output_names':
        return run_output_names(case)
    if case.get('kind') == 'stale_input_index':
        return run_stale_input_index(case)
    acc = Acc()
    r = rng(case['seed'], 'C20', case['cfg'])
    method, multi = case['method'], case['multi']
    contigs = [('chr1', 120000), ('chr2', 30000), ('chr3', 8000)][:1 + case['size']] if multi else [('chr1', 20000), ('chr2', 9000)][:1 + min(case['size'], 1)]
    if case.get('many_contigs'):
        contigs = [('chr1', 120000)] + [(f'scaffold_{j}', 4000) for j in range(r.choice([120, 160]))]
        acc.count('layout:more_than_100_small_contigs')
    if case.get('many_large'):
        contigs = [(f'scaffold_{j}', 100000 + (j % 3)) for j in range(r.choice([503, 510, 520]))]
        acc.count('layout:more_than_500_large_contigs')
        G0 = F.Genome
        F.Genome = SparseGenome
        try:
            gen, recs, truths = F.simulate_library(r, method=method, contigs=contigs, n_cells=2, umis_per_site=(1, 1), copies=(1, 2), case_id=900 + case['cfg'],
                                                   n_unmapped=2, site_positions=[(nm, 600 + 7 * (j % 50)) for j, (nm, _) in enumerate(contigs)])
        finally:
            F.Genome = G0
    else:
        gen, recs, truths = F.simulate_library(r, method=method, contigs=contigs, n_cells=2, n_sites=[2, 4, 8, 450][case['size']], umis_per_site=(1, 2),
                                               copies=(1, 2), case_id=900 + case['cfg'], n_unmapped=[0, 1, 3, 3][case['size']],
                                               p_invalid=0.1 if method == 'nla' else 0)
    if multi and not case.get('many_large') and recs:
        # a scaffold that holds nothing but pairs flagged unmapped which keep a coordinate on it (unmapped in place by an upstream filter)
        gen.refs.append(('scaffold_unmapped_in_place', 7000))
        rid_ = max(F.id_from_name(x['name']) for x in recs) + 1
        for _ in range(3):
            recs.extend(F.unmapped_pair(r, rid_, 900 + case['cfg'], 1, F.rand_dna(r, 3), mx=F.MX_NLA if method == 'nla' else F.MX_CHIC_TRIMMED,
                                        place=(len(gen.refs) - 1, r.randrange(0, 6000))))
            rid_ += 1
        acc.count('layout:contig_with_placed_unmapped_pairs_only')
    # every second shard of a configuration with several contigs leaves the first contig out (-skip_contig): its records are not part of the
    # run, everything behind it is
    skipped = gen.refs[0][0] if (len(gen.refs) > 1 and case['part'] % 2 == 1 and not case.get('many_contigs')) else None
    acc.count('option:skip_contig', 1 if skipped else 0)
    expect = Counter()
    for rec in recs:
        if skipped and rec.get('tid', -1) == 0:
            continue
        expect[(F.id_from_name(rec['name']), 2 if rec['flag'] & 128 else 1)] += 1
    if multi and not case.get('many_large') and recs:
        # a decoy scaffold at the end of the header that holds nothing but supplementary alignments: it is scheduled (it has records) but no
        # molecule comes out of it
        donors = [x for x in recs if x.get('tid', -1) >= 0 and x.get('cigar')]
        gen.refs.append(('chrUn_decoy', 6000))
        for _ in range(3):
            d0 = r.choice(donors)
            recs.append(dict(d0, flag=(d0['flag'] | 2048) & ~2, tid=len(gen.refs) - 1, pos=r.randrange(0, 5000), tags=dict(d0['tags'])))
        acc.count('layout:last_small_contig_holds_supplementary_records_only')
    acc.count('pipeline:multi' if multi else 'pipeline:single')
    for k in ('pipeline:multi', 'pipeline:single', 'fault:in_worker', 'clean:success', 'oracle:success_verified'):
        acc.count(k, 0)
    cfg = {'method': method, 'multiprocess': multi, 'records': len(recs), 'contigs': list(gen.refs)}
    with Scratch('c20') as dd:
        bam = write_bam(os.path.join(dd, 'in.bam'), gen.refs, recs)
        base = {'bam': bam, 'method': method, 'multiprocess': multi, 'threads': 2, 'temp': dd}
        if skipped:
            base['extra_args'] = ['-skip_contig', skipped]

        def one(tag, fault, stale_from=None):
            sub = os.path.join(dd, tag)
            os.makedirs(sub)
            out = os.path.join(sub, 'tagged.bam')
            if stale_from:
                # history: an earlier, successful run wrote to the same output path - its BAM, index and status file are still there
                import shutil as _sh
                for fn in os.listdir(stale_from):
                    if fn.startswith('tagged.') and os.path.isfile(os.path.join(stale_from, fn)):
                        _sh.copy(os.path.join(stale_from, fn), os.path.join(sub, fn))
            spec = dict(base, out=out, trace_file=os.path.join(sub, 'trace.jsonl'), fault=fault, temp=sub)
            rc, hung = run_driver(spec, sub, tag, timeout=40 if fault else 400)
            status_path = out.replace('.bam', '.status.txt')
            status = open(status_path).read().strip() if os.path.exists(status_path) else None
            acc.count('oracle:status_read')
            return out, status, rc, hung, read_trace(spec['trace_file'])
        out, status, rc, hung, trace = one('clean', None)
        acc.evals += 1
        steps = [e for e in trace if 'step' in e]
        acc.count('trace:steps_recorded', len(steps))
        if status is None or SUCCESS not in status or rc != 0:
            raise RuntimeError(f'clean run did not report success (rc={rc}, status={status!r}, hung={hung}, raised={[e.get("exc") for e in trace if e.get("event") == "raised"]}) for {cfg}: inconclusive')
        ok, why = verify_output(out, expect)
        if not ok:
            acc.violate('clean-run-success-but-output-bad', f'clean run reports success but {why} ({cfg})', {'config': cfg})
            return acc
        acc.count('clean:success')
        acc.count('oracle:success_verified')
        # ---- fault points
        points = []
        seen = set()
        for e in steps:
            k = (e['proc'], e['step'], e['occ'], e['when'])
            if k not in seen:
                seen.add(k)
                points.append(k)
        plan = [(p, kind) for p in points for kind in ('raise', 'exit', 'kill')]
        # a step that stays broken: raised before the first and every later attempt (retry loops must give up loudly)
        first_occ = {}
        for p in points:
            if p[3] == 'before' and (p[0], p[1]) not in first_occ:
                first_occ[(p[0], p[1])] = p
        persistent = [(p, 'raise_persistent') for p in first_occ.values()]
        # worker _exit leaves a hung pool (25 s watchdog each): keep only a few of those per shard
        rr = rng(case['seed'], 'C20', case['cfg'], 'plan')
        rr.shuffle(plan)
        mine = [x for i, x in enumerate(plan) if i % case['parts'] == case['part']]
        mine_persistent = [x for i, x in enumerate(sorted(persistent)) if i % case['parts'] == case['part']]
        if case['tier'] == 'quick':
            # always keep the post-write steps (sort / index / header / merge / status), sample the rest
            key_steps = ('pysam.sort', 'pysam.index', 'pysam.merge', 'add_readgroups_to_header', 'replace_bam_header', 'write_status', 'merge_bams',
                         'shutil.rmtree', 'os.rename', 'run_tagging_tasks')
            keep = [x for x in mine if x[0][1] in key_steps]
            rest = [x for x in mine if x[0][1] not in key_steps]
            mine = keep[:7] + rest[:2]
        mine = mine_persistent + mine
        # the set-up phase of a re-run over the output of an earlier successful run (old BAM and index are removed there): always exercised
        forced_stale = set()
        if case['part'] == 1 and multi:
            worker_writes = [p_ for p_ in points if p_[0] != 'main' and p_[1] == 'molecule.write_pysam' and p_[3] == 'before']
            for p_ in worker_writes[:2]:
                mine.insert(0, (p_, 'raise:OSError'))
        if case['part'] == 0:
            for spec_ in ((('main', 'os.remove', 0, 'after'), 'raise'), (('main', 'os.remove', 0, 'after'), 'kill'), (('main', 'os.remove', 1, 'after'), 'exit'),
                          (('main', 'write_status', 0, 'before'), 'kill')):
                mine.insert(0, spec_)
                forced_stale.add(spec_)
        hung_budget = (1 if case['part'] == 0 else 0) if case['tier'] == 'quick' else 4
        if case.get('many_contigs'):
            mine = [x for x in mine if x[1] in ('raise', 'kill')][:2 if case.get('many_large') else 4]
            hung_budget = 0
        for (proc, stepname, occ, when), kind in mine:
            in_worker = proc != 'main'
            if in_worker and kind == 'exit':
                if hung_budget <= 0:
                    continue
                hung_budget -= 1
            tag = f'f_{len(os.listdir(dd))}'
            fault = {'proc': proc, 'step': stepname, 'occ': occ, 'when': when, 'kind': kind.split(':')[0]}
            if ':' in kind:
                fault['exc'] = kind.split(':')[1]
                kind = kind.split(':')[0]
            stale = rr.random() < 0.4 or ((proc, stepname, occ, when), kind) in forced_stale
            if stale:
                acc.count('history:stale_success_of_earlier_run')
                fault['over_stale_output'] = True
            out, status, rc, hung, trace = one(tag, fault, stale_from=os.path.join(dd, 'clean') if stale else None)
            acc.evals += 1
            fired = any('fired' in e for e in trace)
            for e in trace:
                if 'exception_class' in e:
                    acc.count('fault:class:' + e['exception_class'])
            if fired:
                acc.count('fault:fired')
                acc.count('fault:' + kind.replace('raise_persistent', 'persistent'))
                if in_worker:
                    acc.count('fault:in_worker')
                acc.sigs.add(f"{case['cfg']}/{proc}/{stepname}/{occ}/{when}/{kind}")
            else:
                acc.count('fault:not_reached')
            if hung:
                acc.count('run:hung_killed_by_watchdog')
            if status is not None and SUCCESS in status:
                ok, why = verify_output(out, expect)
                acc.count('oracle:success_verified')
                if not ok:
                    after = [f"{e['step']}#{e['occ']}/{e['when']}" for e in trace if 'step' in e and e['proc'] == 'main'][-4:]
                    acc.violate(f'success-marker-without-complete-output:{stepname}',
                                f'{kind} injected {when} {proc}/{stepname}#{occ}: status file says "{status}" but {why} '
                                f'(last main steps {after}) ({cfg})', {'config': cfg, 'fault': fault, 'why': why, 'rc': rc, 'hung': hung})
            import shutil
            shutil.rmtree(os.path.join(dd, tag), ignore_errors=True)
        acc.sample = {'config': cfg, 'trace_points': len(points), 'faults_run': len(mine),
                      'trace_head': [f"{p[0]}/{p[1]}#{p[2]}/{p[3]}" for p in points[:12]], 'trace_tail': [f"{p[0]}/{p[1]}#{p[2]}/{p[3]}" for p in points[-8:]]}
    return acc
