"""C07 - the molecule partition is independent of the buffer-ejection schedule.

Monitor: the iterator is fed from a harness generator of mate tuples (its documented alternative input) that
logs arrive(seq#, id, key); the consumer logs emit(seq#, ids). One thread, so sequence numbers totally order
the events. The offline checker compares every schedule with the never-eject run and with the simulator's
truth, checks exactly-once emission and that no molecule is emitted before a later fragment with the same
exact key arrives. A second path feeds a real AlignmentFile.
"""
import os
import io
import contextlib
from collections import defaultdict
from vlib.common import Acc, rng, Scratch
from vlib.sim import frags as F
from vlib.sim.bam import write_bam, make_seg, make_header, sort_key

PROPERTY = 'C07'
LEVEL = 'exploration'
RULE = ('sorted fragment sequences (NLA / CHIC / plain Fragment; 1-4 cells; short and long fragments; duplicates arriving after unrelated '
        'molecules became ejectable; several contigs) x cache size in {1000,2000,10000} x pooling 0/1 x hamming 0/1; for inputs of n<=60 '
        'fragments EVERY check_eject_every in 0..n plus None is executed (exhaustive over schedules), for larger inputs sampled intervals. '
        'Non-trivial = (input, schedule) run in which at least one molecule was emitted before the input was exhausted and the input has a '
        'molecule of >=2 fragments; distinct = distinct (input seed, cache, pooling, schedule).'
        ' Plus max_associated_fragments 2 / 3 and cross-contig twins (same cell, UMI, strand, start, end on the next contig); plain molecules opened by a short copy, extended by a long one and joined later through the far end; plain single-end libraries with a well defined grouping (identical spans), also on coordinate 0, for which both pooling methods must give the true partition.')
ASSUMPTIONS = ['precondition of the property: coordinate sorted input and every fragment span + read length shorter than cache_size/2',
               'schedules are the deterministic ejection interval of a single-threaded generator']
MIN_NONTRIVIAL = {'quick': 1500, 'thorough': 60000}
REQUIRED_MONITORS = ['lib:records_without_cigar_as_fragments_of_length_zero', 'event:arrive', 'event:emit', 'emit:before_end_of_input', 'schedule:runs', 'path:alignmentfile', 'oracle:truth_compared',
                     'eject:rounds_with_ejection', 'eject:rounds_nonprefix', 'eject:rounds_noncontiguous', 'history:restarted_passes', 'config:max_associated_fragments', 'lib:cross_contig_twins', 'lib:molecule_end_grows_after_creation', 'lib:plain_fragments_on_coordinate_0', 'config:cache_size_left_at_its_default', 'lib:plain_copies_sharing_only_start_or_only_end']
EXHAUSTIVE = {'quick': True, 'thorough': True}
SHARD_TIMEOUT = {'quick': 900, 'thorough': 7200}


def gen_cases(tier, seed):
    n = 64 if tier == 'quick' else 2400
    return [{'i': i, 'seed': seed} for i in range(n)]


GROWN = [0]


def build_plain_single_end(r, case):
    """single-end reads for the plain Fragment class: two fragments are the same molecule when sample, strand and UMI match and their start OR
    their end coincide - so a short read can join a long molecule through its END long after the molecule was opened"""
    cache = r.choice([1000, 2000])
    h = cache // 2
    ln = r.choice([20000, 40000])
    gen = F.Genome(r, [('chr1', ln)])
    ref = gen.get('chr1')
    recs, truths = [], {}
    rid = 1
    rz = rng(case['seed'], 'C07', 'zero_length', case['i'])
    n_clusters = r.randint(2, 5)
    origin = r.randrange(100, ln - 8 * h - 100)
    for _ in range(n_clusters):
        # clusters overlap: long reads of one cluster advance the position while molecules of its neighbours are still open
        base = origin + r.randint(0, 3 * h)
        starts = [base + r.randint(0, 60) for _ in range(r.randint(1, 4))]
        ends = [base + r.randint(h - 120, 3 * h) for _ in range(r.randint(1, 5))]
        if r.random() < 0.7:
            # gadget: old short molecule A, long molecule B, young short molecule C, then a long read D whose END advances the position so far
            # that A and C may leave while B (opened before C) may not; a late short read B2 joins B through its end coordinate
            x = base + r.randint(0, 40)
            L = r.randint(h // 2, h - 1)
            pend = x + 10 + L + h - r.randint(1, max(2, L - 30))
            pend = max(pend, x + 31 + h)
            dstart = pend - r.randint(max(5, pend - (x + 10 + L) + 6), h - 1) if pend - (x + 10 + L) + 6 < h - 1 else None
            cell_g = r.choice([1, 2])
            strand_g = r.random() < 0.2
            specs = [(x, x + r.randint(3, 9), 'GAA'), (x + 10, x + 10 + L, 'GCC'), (x + 20, x + r.randint(25, 40), 'GGG')]
            if r.random() < 0.6:
                # B is opened by a short copy and only then extended by the long one (same start): the molecule's end grows after it was created
                specs.insert(1, (x + 10, x + 10 + r.randint(3, 9), 'GCC'))
                GROWN[0] += 1
            if dstart is not None and dstart > x + 40:
                specs.append((dstart, pend, 'GTT'))
                b2s = r.randint(dstart + 1, x + 10 + L - 3) if dstart + 1 < x + 10 + L - 3 else None
                if b2s:
                    specs.append((b2s, x + 10 + L, 'GCC'))
            for (a, b, umi) in specs:
                if b - a < 3 or b - a >= h or b >= ln:
                    continue
                recs.append({'name': F.qname(rid, case['i'] + 1, cell_g, umi), 'flag': 16 if strand_g else 0, 'tid': 0, 'pos': a, 'mapq': 60,
                             'cigar': f'{b - a}M', 'seq': ref[a:b], 'qual': [30] * (b - a), 'tags': {}, 'next_tid': -1, 'next_pos': -1})
                truths[rid] = {'id': rid, 'key': ('single', rid), 'span': (a, b), 'valid': True}
                rid += 1
        for _ in range(r.randint(3, 12)):
            reverse = r.random() < 0.25
            if r.random() < 0.55:
                a = r.choice(starts)
                b = a + r.choice([r.randint(5, 60), r.randint(5, h - 1), r.randint(h - 40, h - 1)])
            else:
                b = r.choice(ends)
                a = b - r.choice([r.randint(5, 60), r.randint(5, h - 1), r.randint(h - 40, h - 1)])
            a = max(1, a)
            if b - a < 5 or b - a >= h or b >= ln:
                continue
            umi = r.choice(['AAA', 'AAA', 'CCC'])
            cell = r.choice([1, 1, 2])
            seq = ref[a:b]
            recs.append({'name': F.qname(rid, case['i'] + 1, cell, umi), 'flag': 16 if reverse else 0, 'tid': 0, 'pos': a, 'mapq': 60, 'cigar': f'{b - a}M',
                         'seq': seq, 'qual': [30] * (b - a), 'tags': {}, 'next_tid': -1, 'next_pos': -1})
            truths[rid] = {'id': rid, 'key': ('single', rid), 'span': (a, b), 'valid': True}
            rid += 1
            if case['i'] % 8 == 7 and rz.random() < 0.4:
                # placed records without CIGAR (an aligner wrote '*'): fragments of length zero, start = end. One or two identical ones of the
                # same cell, strand and UMI, lying on the end coordinate or the start coordinate of the read just made, or one base next to it
                z = rz.choice([b, b, b, a, b - 1, b + 1])
                for _ in range(rz.randint(1, 2)):
                    recs.append({'name': F.qname(rid, case['i'] + 1, cell, umi), 'flag': 16 if reverse else 0, 'tid': 0, 'pos': z, 'mapq': 60, 'cigar': None,
                                 'seq': 'ACGTACGTAC', 'qual': [30] * 10, 'tags': {}, 'next_tid': -1, 'next_pos': -1})
                    truths[rid] = {'id': rid, 'key': ('single', rid), 'span': (z, z), 'valid': True}
                    ZERO_LEN[0] += 1
                    rid += 1
    return 'plain', cache, gen, recs, truths


def build_plain_exact(r, case):
    """single-end reads for the plain Fragment class whose grouping IS well defined: the copies of a molecule are identical in cell, strand, UMI,
    start and end; two molecules of one (cell, strand) share neither start nor end unless their UMIs differ. Includes molecules on the very
    first base of a contig (coordinate 0) and on the last one."""
    cache = r.choice([1000, 2000])
    h = cache // 2
    ncontig = r.randint(1, 2)
    gen = F.Genome(r, [(f'chr{j + 1}', r.choice([6000, 20000])) for j in range(ncontig)])
    recs, truths = [], {}
    rid = 1
    used = defaultdict(set)
    for name, ln in gen.refs:
        ref = gen.get(name)
        spots = [0, 0, ln] + [r.randrange(1, ln - 5) for _ in range(r.randint(3, 12))]
        for sp in spots:
            L = r.randint(5, h - 1)
            a, b = (sp, sp + L) if sp != ln else (ln - L, ln)
            if b > ln:
                continue
            cell, reverse = r.choice([1, 1, 2]), r.random() < 0.3
            if ('s', a) in used[(name, cell, reverse)] or ('e', b) in used[(name, cell, reverse)]:
                continue
            used[(name, cell, reverse)].update([('s', a), ('e', b)])
            for umi in r.sample(['AAA', 'CCC', 'GGT'], r.randint(1, 2)):
                # the copies of a molecule are identical, or share only their start, or share only their end (every two of them then still match);
                # the free coordinate of a copy coincides with no start / end of any other molecule of this cell and strand
                shape = r.choice(['identical', 'identical', 'share_start', 'share_end']) if 0 < a and b < ln and b - a > 12 else 'identical'
                for _ in range(r.randint(1, 4)):
                    a2, b2 = a, b
                    if shape == 'share_start':
                        b2 = a + r.randint(5, b - a)
                        if b2 != b and ('e', b2) in used[(name, cell, reverse)]:
                            b2 = b
                        used[(name, cell, reverse)].add(('e', b2))
                    elif shape == 'share_end':
                        a2 = b - r.randint(5, b - a)
                        if a2 != a and ('s', a2) in used[(name, cell, reverse)]:
                            a2 = a
                        used[(name, cell, reverse)].add(('s', a2))
                    if shape != 'identical':
                        SHAPED[0] += 1
                    recs.append({'name': F.qname(rid, case['i'] + 1, cell, umi), 'flag': 16 if reverse else 0, 'tid': gen.tid(name), 'pos': a2, 'mapq': 60,
                                 'cigar': f'{b2 - a2}M', 'seq': ref[a2:b2], 'qual': [30] * (b2 - a2), 'tags': {}, 'next_tid': -1, 'next_pos': -1})
                    truths[rid] = {'id': rid, 'key': ('exact', name, cell, reverse, umi, a, b), 'span': (a2, b2), 'valid': True}
                    if a2 == 0:
                        AT_ZERO[0] += 1
                    rid += 1
    return 'plain', cache, gen, recs, truths


AT_ZERO = [0]
ZERO_LEN = [0]
SHAPED = [0]
TWINS = [0]


def build_input(r, case):
    if case['i'] % 4 == 3:
        return build_plain_single_end(r, case)
    if case['i'] % 8 == 2:
        return build_plain_exact(r, case)
    method = r.choice(['nla', 'nla', 'chic', 'plain'])
    cache = r.choice([1000, 2000, 10000])
    # precondition: every fragment is shorter than the cache radius (cache_size/2). With reads of 40 bp and fragments of >= 50 bp the
    # never-premature argument holds up to exactly that bound, so the generator goes right up to it.
    maxfrag = cache // 2 - 1
    ncontig = r.randint(1, 3)
    clen = r.choice([6000, 15000, 40000]) if cache < 10000 else r.choice([40000, 90000])
    contigs = [(f'chr{j + 1}', clen) for j in range(ncontig)]
    big = r.random() < 0.15
    n_sites = r.randint(2, 6) if not big else r.randint(30, 80)
    site_positions = None
    copies = (1, 3)
    umis = (1, 2)
    frag_len_fn = None
    frag_range = (50, min(maxfrag, r.choice([120, 400, maxfrag])))
    if r.random() < 0.45:
        # dense cluster: many sites within a few fragment lengths of each other and copies of very different lengths, so that a molecule
        # opened by a short copy is extended by a long one while younger, shorter molecules around it become ejectable first
        # (the ejectable set is then not a prefix, and not even contiguous, in the buffer)
        name, ln = contigs[0]
        base = r.randrange(maxfrag + 100, ln - 2 * maxfrag - 2000)
        k = r.randint(3, 9) if not big else r.randint(15, 40)
        site_positions = sorted(set((name, base + r.randint(0, min(1500, 60 * k)) ) for _ in range(k)))
        copies = (1, 4)
        umis = (1, 4)
        frag_range = (50, maxfrag)

        def frag_len_fn(rr, maxfrag=maxfrag):
            x = rr.random()
            if x < 0.45:
                return rr.randint(50, 120)
            if x < 0.7:
                return rr.randint(maxfrag - 35, maxfrag)      # just below the cache radius
            return rr.randint(50, maxfrag)
    gen, recs, truths = F.simulate_library(
        r, method='nla' if method == 'plain' else method, contigs=contigs, n_cells=r.randint(1, 4), n_sites=n_sites, umi_len=3,
        umis_per_site=umis, copies=copies, case_id=case['i'] + 1, p_clip=0.1, p_invalid=0.0, p_umi_neighbour=0.3,
        frag_range=frag_range, read_len=40, p_mismatch=0.0, site_positions=site_positions, frag_len_fn=frag_len_fn)
    if ncontig >= 2 and method in ('plain', 'chic') and r.random() < 0.8:
        # twins: a fragment of the first contig re-appears on the next contig with the same cell, UMI, strand, start and end (real data:
        # homologous chromosomes, alt contigs). It is another molecule, whatever is still in the buffer when it arrives.
        src_name, dst_name = contigs[0][0], contigs[1][0]
        src_tid, dst_tid = gen.tid(src_name), gen.tid(dst_name)
        ids = sorted(i for i, t in truths.items() if t.get('contig') == src_name and t.get('key'))
        nxt = max(truths) + 1
        for i in r.sample(ids, min(len(ids), r.randint(1, 3))):
            for rec in [x for x in recs if F.id_from_name(x['name']) == i]:
                twin = dict(rec, name=rec['name'].replace(f'CX:{i};', f'CX:{nxt};'), tid=dst_tid, tags=dict(rec['tags']))
                if twin.get('next_tid', -1) == src_tid:
                    twin['next_tid'] = dst_tid
                recs.append(twin)
            t = dict(truths[i], id=nxt, contig=dst_name)
            k = truths[i]['key']
            t['key'] = (k[0], dst_name) + tuple(k[2:])
            truths[nxt] = t
            nxt += 1
        TWINS[0] += 1
    return method, cache, gen, recs, truths


def pairs_in_arrival_order(gen, recs):
    """what a mate pair iterator over the sorted file yields: a pair is complete when its second mate is read"""
    header = make_header(gen.refs)
    srt = sorted(recs, key=sort_key)
    first = {}
    out = []
    for rec in srt:
        rid = F.id_from_name(rec['name'])
        if not rec['flag'] & 1:
            out.append((rid, rec, None))
            continue
        if rid in first:
            a, b = first.pop(rid), rec
            r1, r2 = (a, b) if a['flag'] & 64 else (b, a)
            out.append((rid, r1, r2))
        else:
            first[rid] = rec
    return header, out


def run_case(case):
    import pysam
    import singlecellmultiomics.molecule as smm
    import singlecellmultiomics.fragment as smf
    from singlecellmultiomics.molecule import MoleculeIterator
    from singlecellmultiomics.molecule import molecule as mm
    orig_cby = mm.Molecule.can_be_yielded
    acc = Acc()
    r = rng(case['seed'], 'C07', case['i'])
    TWINS[0] = 0
    GROWN[0] = 0
    AT_ZERO[0] = 0
    ZERO_LEN[0] = 0
    SHAPED[0] = 0
    method, cache, gen, recs, truths = build_input(r, case)
    acc.count('lib:cross_contig_twins', TWINS[0])
    acc.count('lib:molecule_end_grows_after_creation', GROWN[0])
    acc.count('lib:plain_fragments_on_coordinate_0', AT_ZERO[0])
    acc.count('lib:records_without_cigar_as_fragments_of_length_zero', ZERO_LEN[0])
    acc.count('lib:plain_copies_sharing_only_start_or_only_end', SHAPED[0])
    if len(truths) < 2:
        return acc
    d = r.choice([0, 0, 1])
    mclass, fclass = {'nla': (smm.NlaIIIMolecule, smf.NlaIIIFragment), 'chic': (smm.CHICMolecule, smf.CHICFragment),
                      'plain': (smm.Molecule, smf.Fragment)}[method]
    fargs = {'umi_hamming_distance': d}
    if method == 'plain':
        fargs['assignment_radius'] = 0
    header, pairs = pairs_in_arrival_order(gen, recs)
    n = len(pairs)
    truth_part = set()
    groups = defaultdict(set)
    for rid, t in truths.items():
        groups[t['key']].add(rid)
    truth_part = set(frozenset(g) for g in groups.values())
    has_multi = any(len(g) > 1 for g in truth_part) or any(t['key'][0] == 'single' for t in truths.values())
    # a cap on the fragments per molecule: the surplus copies are emitted as molecules of their own (overflow) - which ones, must not depend
    # on the ejection schedule either
    cap = r.choice([None, None, None, 2, 3])
    margs = {'cache_size': cache}
    if cache == 10000 and case['i'] % 2 == 1:
        # the size of the molecule cache left at its default (the same 10000): nothing may depend on whether it was spelled out
        margs = {}
        acc.count('config:cache_size_left_at_its_default')
    if cap:
        margs['max_associated_fragments'] = cap
    acc.count('config:max_associated_fragments', 1 if cap else 0)
    cfg = {'method': method, 'cache_size': cache, 'hamming': d, 'fragments': n, 'contigs': len(gen.refs), 'max_associated_fragments': cap}

    def execute(every, pooling, source='generator', bam=None):
        events = []
        seq = [0]
        rounds = {}

        def observed_can_be_yielded(self_, chromosome, position):
            res = orig_cby(self_, chromosome, position)
            key = (seq[0], self_.match_hash if pooling == 1 else 0)
            rounds.setdefault(key, []).append(bool(res))
            return res
        mm.Molecule.can_be_yielded = observed_can_be_yielded
        try:
            return _execute(every, pooling, source, bam, events, seq)
        finally:
            mm.Molecule.can_be_yielded = orig_cby
            for pattern in rounds.values():
                if True in pattern:
                    acc.count('eject:rounds_with_ejection')
                    first = pattern.index(True)
                    if first > 0:
                        acc.count('eject:rounds_nonprefix')
                    txt = ''.join('T' if x else 'F' for x in pattern).strip('F')
                    if 'F' in txt:
                        acc.count('eject:rounds_noncontiguous')

    def _execute(every, pooling, source, bam, events, seq):

        def feeder():
            for rid, r1, r2 in pairs:
                seq[0] += 1
                events.append(('arrive', seq[0], rid))
                acc.count('event:arrive')
                yield (make_seg(header, r1), make_seg(header, r2) if r2 is not None else None)
        emitted = []
        n_arrived_at_emit = []
        with contextlib.redirect_stdout(io.StringIO()):
            if source == 'generator':
                it = MoleculeIterator(feeder(), molecule_class=mclass, fragment_class=fclass, fragment_class_args=dict(fargs),
                                      molecule_class_args=dict(margs), check_eject_every=every, pooling_method=pooling,
                                      yield_invalid=True)
                for m in it:
                    ids = sorted(F.id_from_name([x for x in frag if x is not None][0].query_name) for frag in m)
                    seq[0] += 1
                    events.append(('emit', seq[0], tuple(ids)))
                    acc.count('event:emit')
                    emitted.append(ids)
                    n_arrived_at_emit.append(sum(1 for e in events if e[0] == 'arrive'))
            else:
                with pysam.AlignmentFile(bam) as f:
                    it = MoleculeIterator(f, molecule_class=mclass, fragment_class=fclass, fragment_class_args=dict(fargs),
                                          molecule_class_args=dict(margs), check_eject_every=every, pooling_method=pooling,
                                          yield_invalid=True)
                    for m in it:
                        ids = sorted(F.id_from_name([x for x in frag if x is not None][0].query_name) for frag in m)
                        emitted.append(ids)
                        acc.count('event:emit')
                        n_arrived_at_emit.append(None)
        return events, emitted, n_arrived_at_emit

    def decide(every, pooling, events, emitted, arrived_at_emit, reference, label):
        acc.evals += 1
        acc.count('schedule:runs')
        wit = {'config': cfg, 'check_eject_every': every, 'pooling': pooling, 'path': label,
               'arrival_order': [(rid, truths[rid]['key'][1:], truths[rid]['span']) for rid, _, _ in pairs][:80]}
        flat = [i for g in emitted for i in g]
        if sorted(flat) != sorted(set(flat)):
            acc.violate('fragment-emitted-twice', f'{label} every={every} pooling={pooling}: a fragment is in two emitted molecules ({cfg})', wit)
        if set(flat) != set(truths):
            acc.violate('fragment-never-emitted', f'{label} every={every} pooling={pooling}: fragments {sorted(set(truths) - set(flat))[:6]} were never emitted ({cfg})', wit)
        part = sorted(map(tuple, emitted))
        if reference is not None and part != reference:
            a = set(map(tuple, emitted))
            b = set(reference)
            acc.violate('partition-depends-on-ejection-schedule',
                        f'{label} check_eject_every={every} pooling={pooling}: partition differs from the never-eject run; only here {sorted(a - b)[:3]}, '
                        f'only in reference {sorted(b - a)[:3]} ({cfg})', dict(wit, only_here=sorted(a - b)[:6], only_reference=sorted(b - a)[:6]))
        # premature emission: an emitted molecule followed by the arrival of a fragment with the same exact key
        if events and not cap:
            emitted_keys = {}
            for ev in events:
                if ev[0] == 'emit':
                    for i in ev[2]:
                        emitted_keys.setdefault(truths[i]['key'], ev[1])
                elif ev[0] == 'arrive':
                    k = truths[ev[2]]['key']
                    if k in emitted_keys:
                        acc.violate('molecule-emitted-before-its-last-fragment',
                                    f'{label} every={every} pooling={pooling}: molecule {k} was emitted at step {emitted_keys[k]} but fragment {ev[2]} of it arrives at step {ev[1]} ({cfg})', wit)
                        break
        early = sum(1 for a_ in arrived_at_emit if a_ is not None and a_ < n)
        if early:
            acc.count('emit:before_end_of_input', early)
        if early and has_multi:
            acc.sigs.add(f"{case['i']}/{cache}/{pooling}/{every}/{label}")
        return part

    # reference: never eject
    ref_parts = {}
    for pooling in (0, 1):
        ev, em, arr = execute(None, pooling)
        ref_parts[pooling] = decide(None, pooling, ev, em, arr, None, 'generator')
    single_end_plain = any(t['key'][0] == 'single' for t in truths.values())
    if d == 0:
        # The span based equality of the plain Fragment class (start OR end coincide) is not an equivalence relation: pooling 0 compares a
        # candidate with every member, pooling 1 with the molecule's aggregated span, so on crafted single-end inputs the two legitimately group
        # differently (also on paired data when far ends of different molecules coincide). Agreement of the pooling methods is demanded where
        # grouping is well defined: the site based classes.
        exact_plain = any(t['key'][0] == 'exact' for t in truths.values())
        if not single_end_plain and (method != 'plain' or exact_plain) and not cap and ref_parts[0] != ref_parts[1]:
            acc.violate('pooling-methods-disagree', f'never-eject partitions of pooling 0 and 1 differ ({cfg})', {'config': cfg})
        acc.count('oracle:truth_compared')
        if (method != 'plain' or exact_plain) and not cap and set(map(frozenset, ref_parts[1])) != truth_part:
            acc.violate('never-eject-partition-differs-from-truth', f'reference partition differs from simulator truth ({cfg})', {'config': cfg})
    else:
        acc.count('oracle:truth_compared', 0)
    schedules = list(range(0, n + 1)) if n <= 60 else sorted(set([0, 1, 2, 3, 5, 10, 50, 100, n // 2, n - 1, n] + [r.randint(0, n) for _ in range(8)]))
    for every in schedules:
        for pooling in (0, 1):
            ev, em, arr = execute(every, pooling)
            decide(every, pooling, ev, em, arr, ref_parts[pooling], 'generator')
    # history: the same iterator object is iterated again after an earlier pass over it was stopped early (`for m in it: break`,
    # as in the class documentation); the second, complete pass must give the reference partition with every fragment exactly once
    for every in [None] + r.sample(schedules, min(3, len(schedules))):
        for pooling in (0, 1):
            source = [(make_seg(header, r1), make_seg(header, r2) if r2 is not None else None) for rid, r1, r2 in pairs]
            stop_after = r.randint(0, max(0, len(ref_parts[pooling]) - 1))
            with contextlib.redirect_stdout(io.StringIO()):
                it = MoleculeIterator(source, molecule_class=mclass, fragment_class=fclass, fragment_class_args=dict(fargs),
                                      molecule_class_args=dict(margs), check_eject_every=every, pooling_method=pooling, yield_invalid=True)
                for k, m in enumerate(it):
                    if k >= stop_after:
                        break
                emitted = []
                for m in it:
                    emitted.append(sorted(F.id_from_name([x for x in frag if x is not None][0].query_name) for frag in m))
            acc.count('history:restarted_passes')
            decide(every, pooling, [], emitted, [None] * len(emitted), ref_parts[pooling], f'restart-after-{stop_after}-molecules')
    # real AlignmentFile path on a few schedules
    if case['i'] % 4 == 0:
        with Scratch('c07') as dd:
            bam = write_bam(os.path.join(dd, 'in.bam'), gen.refs, recs)
            for every in [None] + r.sample(schedules, min(4, len(schedules))):
                for pooling in (0, 1):
                    ev, em, arr = execute(every, pooling, source='bam', bam=bam)
                    acc.count('path:alignmentfile')
                    decide(every, pooling, [], em, arr, ref_parts[pooling], 'alignmentfile')
    else:
        acc.count('path:alignmentfile', 0)
    acc.sample = {'config': cfg, 'schedules': len(schedules), 'exhaustive_over_schedules': n <= 60, 'true_molecules': len(truth_part),
                  'arrival_head': [(rid, truths[rid]['key'][-1], truths[rid]['span']) for rid, _, _ in pairs[:5]]}
    return acc
