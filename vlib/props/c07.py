"""C07 - the molecule partition is independent of the buffer-ejection schedule.

Monitor: the iterator is fed from a harness generator of mate tuples (its documented alternative input) that
logs arrive(seq#, id, key); the consumer logs emit(seq#, ids). One thread, so sequence numbers totally order
the events. The offline checker compares every schedule with the never-eject run and with the simulator's
truth, checks exactly-once emission and that no molecule is emitted before a later fragment with the same
exact key arrives. A second path feeds a real AlignmentFile.
"""
import os
import io
import contextlib
from collections import defaultdict
from vlib.common import Acc, rng, Scratch
from vlib.sim import frags as F
from vlib.sim.bam import write_bam, make_seg, make_header, sort_key

PROPERTY = 'C07'
LEVEL = 'exploration'
RULE = ('sorted fragment sequences (NLA / CHIC / plain Fragment; 1-4 cells; short and long fragments; duplicates arriving after unrelated '
        'molecules became ejectable; several contigs) x cache size in {1000,2000,10000} x pooling 0/1 x hamming 0/1; for inputs of n<=60 '
        'fragments EVERY check_eject_every in 0..n plus None is executed (exhaustive over schedules), for larger inputs sampled intervals. '
        'Non-trivial = (input, schedule) run in which at least one molecule was emitted before the input was exhausted and the input has a '
        'molecule of >=2 fragments; distinct = distinct (input seed, cache, pooling, schedule).')
ASSUMPTIONS = ['precondition of the property: coordinate sorted input and every fragment span + read length shorter than cache_size/2',
               'schedules are the deterministic ejection interval of a single-threaded generator']
MIN_NONTRIVIAL = {'quick': 1500, 'thorough': 20000}
REQUIRED_MONITORS = ['event:arrive', 'event:emit', 'emit:before_end_of_input', 'schedule:runs', 'path:alignmentfile', 'oracle:truth_compared']
EXHAUSTIVE = {'quick': True, 'thorough': True}
SHARD_TIMEOUT = {'quick': 900, 'thorough': 7200}


def gen_cases(tier, seed):
    n = 64 if tier == 'quick' else 700
    return [{'i': i, 'seed': seed} for i in range(n)]


def build_input(r, case):
    method = r.choice(['nla', 'nla', 'chic', 'plain'])
    cache = r.choice([1000, 2000, 10000])
    maxfrag = cache // 2 - 60
    ncontig = r.randint(1, 3)
    clen = r.choice([6000, 15000, 40000]) if cache < 10000 else r.choice([40000, 90000])
    contigs = [(f'chr{j + 1}', clen) for j in range(ncontig)]
    big = r.random() < 0.15
    n_sites = r.randint(2, 6) if not big else r.randint(30, 80)
    gen, recs, truths = F.simulate_library(
        r, method='nla' if method == 'plain' else method, contigs=contigs, n_cells=r.randint(1, 4), n_sites=n_sites, umi_len=3,
        umis_per_site=(1, 2), copies=(1, 3), case_id=case['i'] + 1, p_clip=0.1, p_invalid=0.0, p_umi_neighbour=0.3,
        frag_range=(50, min(maxfrag, r.choice([120, 400, maxfrag]))), read_len=40, p_mismatch=0.0)
    return method, cache, gen, recs, truths


def pairs_in_arrival_order(gen, recs):
    """what a mate pair iterator over the sorted file yields: a pair is complete when its second mate is read"""
    header = make_header(gen.refs)
    srt = sorted(recs, key=sort_key)
    first = {}
    out = []
    for rec in srt:
        rid = F.id_from_name(rec['name'])
        if rid in first:
            a, b = first.pop(rid), rec
            r1, r2 = (a, b) if a['flag'] & 64 else (b, a)
            out.append((rid, r1, r2))
        else:
            first[rid] = rec
    return header, out


def run_case(case):
    import pysam
    import singlecellmultiomics.molecule as smm
    import singlecellmultiomics.fragment as smf
    from singlecellmultiomics.molecule import MoleculeIterator
    acc = Acc()
    r = rng(case['seed'], 'C07', case['i'])
    method, cache, gen, recs, truths = build_input(r, case)
    if len(truths) < 2:
        return acc
    d = r.choice([0, 0, 1])
    mclass, fclass = {'nla': (smm.NlaIIIMolecule, smf.NlaIIIFragment), 'chic': (smm.CHICMolecule, smf.CHICFragment),
                      'plain': (smm.Molecule, smf.Fragment)}[method]
    fargs = {'umi_hamming_distance': d}
    if method == 'plain':
        fargs['assignment_radius'] = 0
    header, pairs = pairs_in_arrival_order(gen, recs)
    n = len(pairs)
    truth_part = set()
    groups = defaultdict(set)
    for rid, t in truths.items():
        groups[t['key']].add(rid)
    truth_part = set(frozenset(g) for g in groups.values())
    has_multi = any(len(g) > 1 for g in truth_part)
    cfg = {'method': method, 'cache_size': cache, 'hamming': d, 'fragments': n, 'contigs': len(gen.refs)}

    def execute(every, pooling, source='generator', bam=None):
        events = []
        seq = [0]

        def feeder():
            for rid, r1, r2 in pairs:
                seq[0] += 1
                events.append(('arrive', seq[0], rid))
                acc.count('event:arrive')
                yield (make_seg(header, r1), make_seg(header, r2))
        emitted = []
        n_arrived_at_emit = []
        with contextlib.redirect_stdout(io.StringIO()):
            if source == 'generator':
                it = MoleculeIterator(feeder(), molecule_class=mclass, fragment_class=fclass, fragment_class_args=dict(fargs),
                                      molecule_class_args={'cache_size': cache}, check_eject_every=every, pooling_method=pooling,
                                      yield_invalid=True)
                for m in it:
                    ids = sorted(F.id_from_name([x for x in frag if x is not None][0].query_name) for frag in m)
                    seq[0] += 1
                    events.append(('emit', seq[0], tuple(ids)))
                    acc.count('event:emit')
                    emitted.append(ids)
                    n_arrived_at_emit.append(sum(1 for e in events if e[0] == 'arrive'))
            else:
                with pysam.AlignmentFile(bam) as f:
                    it = MoleculeIterator(f, molecule_class=mclass, fragment_class=fclass, fragment_class_args=dict(fargs),
                                          molecule_class_args={'cache_size': cache}, check_eject_every=every, pooling_method=pooling,
                                          yield_invalid=True)
                    for m in it:
                        ids = sorted(F.id_from_name([x for x in frag if x is not None][0].query_name) for frag in m)
                        emitted.append(ids)
                        acc.count('event:emit')
                        n_arrived_at_emit.append(None)
        return events, emitted, n_arrived_at_emit

    def decide(every, pooling, events, emitted, arrived_at_emit, reference, label):
        acc.evals += 1
        acc.count('schedule:runs')
        wit = {'config': cfg, 'check_eject_every': every, 'pooling': pooling, 'path': label,
               'arrival_order': [(rid, truths[rid]['key'][1:], truths[rid]['span']) for rid, _, _ in pairs][:80]}
        flat = [i for g in emitted for i in g]
        if sorted(flat) != sorted(set(flat)):
            acc.violate('fragment-emitted-twice', f'{label} every={every} pooling={pooling}: a fragment is in two emitted molecules ({cfg})', wit)
        if set(flat) != set(truths):
            acc.violate('fragment-never-emitted', f'{label} every={every} pooling={pooling}: fragments {sorted(set(truths) - set(flat))[:6]} were never emitted ({cfg})', wit)
        part = sorted(map(tuple, emitted))
        if reference is not None and part != reference:
            a = set(map(tuple, emitted))
            b = set(reference)
            acc.violate('partition-depends-on-ejection-schedule',
                        f'{label} check_eject_every={every} pooling={pooling}: partition differs from the never-eject run; only here {sorted(a - b)[:3]}, '
                        f'only in reference {sorted(b - a)[:3]} ({cfg})', dict(wit, only_here=sorted(a - b)[:6], only_reference=sorted(b - a)[:6]))
        # premature emission: an emitted molecule followed by the arrival of a fragment with the same exact key
        if events:
            emitted_keys = {}
            for ev in events:
                if ev[0] == 'emit':
                    for i in ev[2]:
                        emitted_keys.setdefault(truths[i]['key'], ev[1])
                elif ev[0] == 'arrive':
                    k = truths[ev[2]]['key']
                    if k in emitted_keys:
                        acc.violate('molecule-emitted-before-its-last-fragment',
                                    f'{label} every={every} pooling={pooling}: molecule {k} was emitted at step {emitted_keys[k]} but fragment {ev[2]} of it arrives at step {ev[1]} ({cfg})', wit)
                        break
        early = sum(1 for a_ in arrived_at_emit if a_ is not None and a_ < n)
        if early:
            acc.count('emit:before_end_of_input', early)
        if early and has_multi:
            acc.sigs.add(f"{case['i']}/{cache}/{pooling}/{every}/{label}")
        return part

    # reference: never eject
    ref_parts = {}
    for pooling in (0, 1):
        ev, em, arr = execute(None, pooling)
        ref_parts[pooling] = decide(None, pooling, ev, em, arr, None, 'generator')
    if d == 0:
        if ref_parts[0] != ref_parts[1]:
            acc.violate('pooling-methods-disagree', f'never-eject partitions of pooling 0 and 1 differ ({cfg})', {'config': cfg})
        acc.count('oracle:truth_compared')
        if method != 'plain' and set(map(frozenset, ref_parts[1])) != truth_part:
            acc.violate('never-eject-partition-differs-from-truth', f'reference partition differs from simulator truth ({cfg})', {'config': cfg})
    else:
        acc.count('oracle:truth_compared', 0)
    schedules = list(range(0, n + 1)) if n <= 60 else sorted(set([0, 1, 2, 3, 5, 10, 50, 100, n // 2, n - 1, n] + [r.randint(0, n) for _ in range(8)]))
    for every in schedules:
        for pooling in (0, 1):
            ev, em, arr = execute(every, pooling)
            decide(every, pooling, ev, em, arr, ref_parts[pooling], 'generator')
    # real AlignmentFile path on a few schedules
    if case['i'] % 4 == 0:
        with Scratch('c07') as dd:
            bam = write_bam(os.path.join(dd, 'in.bam'), gen.refs, recs)
            for every in [None] + r.sample(schedules, min(4, len(schedules))):
                for pooling in (0, 1):
                    ev, em, arr = execute(every, pooling, source='bam', bam=bam)
                    acc.count('path:alignmentfile')
                    decide(every, pooling, [], em, arr, ref_parts[pooling], 'alignmentfile')
    else:
        acc.count('path:alignmentfile', 0)
    acc.sample = {'config': cfg, 'schedules': len(schedules), 'exhaustive_over_schedules': n <= 60, 'true_molecules': len(truth_part),
                  'arrival_head': [(rid, truths[rid]['key'][2], truths[rid]['span']) for rid, _, _ in pairs[:5]]}
    return acc
