"""C03 - barcode correction assigns the unique nearest whitelisted barcode or nothing.

Monitor: every call of BarcodeParser.getIndexCorrectedBarcodeAndHammingDistance is
wrapped (call recorded, result recorded) and decided by a brute-force
nearest-neighbour oracle over the whitelist parsed independently from the file.
"""
import os
import glob
import gzip
import itertools
from vlib.common import Acc, rng, Scratch, sha

PROPERTY = 'C03'
LEVEL = 'exploration'
RULE = ('generated whitelists (length 3-6 over ACGTN, 1-30 entries incl. distance-1/2 pairs and N entries; '
        'index-first / barcode-first / single-column files, tab or space separated, plain or .gz; eager, lazy alias, '
        "lazy '*', addBarcode+expand) queried with ALL 5^L strings for k in 0..2, plus every shipped barcode/index file "
        'queried with all members, 1-neighbours, 2-neighbours, random and wrong-length strings. A query is non-trivial '
        'when the oracle finds at least one whitelisted barcode within distance 2 (so assignment, tie or out-of-radius '
        'must be told apart); distinct = distinct (whitelist-hash, k, query).'
        ' Plus cell index 0, a transient failure of the first lazy load (file away / truncated gz / EMFILE) followed by a retry, and demux.py -si a,b,.. -hdi k runs decided on the aA / aI tags.')
ASSUMPTIONS = ['no byte-identical barcode twice in a generated file; for shipped files with duplicates either index is accepted',
               'generated cell indices contain a character outside ACGTNX (column-order sniffing is documented to be ambiguous otherwise) or are plain integers',
               'Hamming distance is defined between strings of equal length only']
MIN_NONTRIVIAL = {'quick': 5000, 'thorough': 1000000}
REQUIRED_MONITORS = ['cli:si_runs', 'cli:si_reads_checked', 'history:touch_before_first_lookup', 'history:first_load_failed_then_retried', 'history:first_load_raised', 'hook:getIndexCorrectedBarcodeAndHammingDistance', 'oracle:assigned', 'oracle:tie', 'oracle:too_far']
EXHAUSTIVE = {'quick': False, 'thorough': False}
SHARD_TIMEOUT = {'quick': 600, 'thorough': 3600}

ALPH = 'ACGTN'


def hd(a, b):
    return sum(1 for x, y in zip(a, b) if x != y)


def oracle(whitelist, q, k):
    """whitelist: list of (barcode, index). -> (index-set, barcode, dist) or None"""
    best = None
    bestd = None
    tie = False
    for bc, idx in whitelist:
        if len(bc) != len(q):
            continue
        d = hd(bc, q)
        if bestd is None or d < bestd:
            best, bestd, tie = (bc, idx), d, False
        elif d == bestd and bc != best[0]:
            tie = True
    if bestd is None:
        return ('none', None)
    if bestd > k:
        return ('too_far', bestd)
    if tie:
        return ('tie', bestd)
    return ('assigned', (best[1], best[0], bestd))


def norm_index(idx):
    try:
        return int(idx)
    except Exception:
        return idx


def parse_file_independently(path, style):
    """style: 'index_first' | 'barcode_first' | 'single' ; returns list of (barcode, index)"""
    op = gzip.open if path.endswith('.gz') else open
    out = []
    with op(path, 'rt') as f:
        for i, line in enumerate(f):
            parts = line.strip().split()
            if not parts:
                continue
            if style == 'single':
                out.append((parts[0], i + 1))
            elif style == 'index_first':
                out.append((parts[1], norm_index(parts[0])))
            else:
                out.append((parts[0], norm_index(parts[1])))
    return out


def sniff_style(path):
    op = gzip.open if path.endswith('.gz') else open
    with op(path, 'rt') as f:
        for line in f:
            parts = line.strip().split()
            if len(parts) == 1:
                return 'single'
            if all(c in 'ACGTNX' for c in parts[0]):
                return 'barcode_first'
            return 'index_first'
    return 'single'


def gen_whitelist(r, L, n):
    wl = []
    seen = set()
    tries = 0
    while len(wl) < n and tries < 500:
        tries += 1
        mode = r.random()
        if wl and mode < 0.45:
            base = list(r.choice(wl))
            for _ in range(r.choice([1, 1, 2, 2, 3])):
                p = r.randrange(L)
                base[p] = r.choice(ALPH if r.random() < 0.2 else 'ACGT')
            bc = ''.join(base)
        else:
            bc = ''.join(r.choice(ALPH if r.random() < 0.1 else 'ACGT') for _ in range(L))
        if bc in seen:
            continue
        seen.add(bc)
        wl.append(bc)
    return wl


def gen_cases(tier, seed):
    cases = []
    n_gen = 48 if tier == 'quick' else 2400
    for i in range(n_gen):
        r = rng(seed, 'C03', 'gen', i)
        L = r.choice([3, 4, 4, 5, 5] if tier == 'quick' else [3, 4, 5, 5, 6, 6])
        n = r.choice([1, 2, 3, 5, 8, 12, 20, 30])
        cases.append({'kind': 'generated', 'i': i, 'L': L, 'n': n,
                      'k': r.choice([0, 1, 1, 2, 2]),
                      'style': r.choice(['index_first', 'barcode_first', 'single']),
                      'sep': r.choice(['\t', ' ']),
                      'gz': r.random() < 0.3,
                      'load': r.choice(['eager', 'lazy_alias', 'lazy_star', 'add_expand']),
                      'index_kind': r.choice(['int', 'name']),
                      'first_load_fault': r.choice([None, None, 'missing', 'truncated', 'emfile']),
                      'seed': seed})
    ships = []
    base = os.path.join(os.environ.get('SCMO_REPO', '/repo'), 'singlecellmultiomics', 'modularDemultiplexer')
    for d in ('barcodes', 'indices'):
        for f in sorted(glob.glob(os.path.join(base, d, '*'))):
            if os.path.getsize(f) < 30:
                continue
            for k in (0, 1, 2):
                ships.append({'kind': 'shipped', 'dir': d, 'file': os.path.basename(f), 'k': k, 'seed': seed,
                              'n_members': 40 if tier == 'quick' else 400,
                              'n_random': 300 if tier == 'quick' else 3000})
    # the sequencing indices the user names on the demux.py command line (-si a,b,c -hdi k) go through the same correction
    clis = [{'kind': 'cli_si', 'j': j, 'seed': seed} for j in range(6 if tier == 'quick' else 150)]
    return cases + ships + clis


class Hook:
    """wrapper on the parser's lookup: records every call and its result"""

    def __init__(self, acc):
        self.acc = acc
        self.calls = []

    def install(self, cls):
        orig = cls.getIndexCorrectedBarcodeAndHammingDistance
        hook = self

        def wrapped(self_, barcode, alias, try_lazy_load_pending=True):
            res = orig(self_, barcode, alias, try_lazy_load_pending)
            if try_lazy_load_pending:  # outermost call only
                hook.acc.count('hook:getIndexCorrectedBarcodeAndHammingDistance')
                hook.calls.append((barcode, alias, res))
            return res
        wrapped._orig = orig
        cls.getIndexCorrectedBarcodeAndHammingDistance = wrapped
        self.cls = cls
        self.orig = orig

    def remove(self):
        self.cls.getIndexCorrectedBarcodeAndHammingDistance = self.orig


def decide(acc, whitelist, dup_barcodes, q, k, res, ctx):
    verdict, val = oracle(whitelist, q, k)
    acc.count('oracle:' + verdict)
    acc.evals += 1
    if verdict == 'assigned':
        idx, bc, d = val
        ok = (res is not None and len(res) == 3 and res[1] == bc and res[2] == d and
              (res[0] == idx or (bc in dup_barcodes and res[0] in dup_barcodes[bc])))
        if not ok:
            mech = 'nearest-not-assigned' if (res is None or res[0] is None) else 'wrong-assignment'
            acc.violate(mech, f'query {q} k={k}: expected {(idx, bc, d)} got {res}',
                        {'query': q, 'k': k, 'expected': [idx, bc, d], 'got': list(res) if res else None, 'ctx': ctx})
    else:
        if res is None or tuple(res) != (None, None, None):
            mech = {'tie': 'tie-resolved-arbitrarily', 'too_far': 'assigned-beyond-k', 'none': 'assigned-wrong-length'}[verdict]
            acc.violate(mech, f'query {q} k={k}: oracle says {verdict} (min distance {val}) but got {res}',
                        {'query': q, 'k': k, 'oracle': verdict, 'got': list(res), 'ctx': ctx})
    return verdict, val


def run_cli_si(case):
    """demux.py -si <indices> -hdi k: every read of a library carrying whitelisted cell barcodes is kept iff its header index has a unique nearest
    selected index within k, and is then tagged with that index (aA) and its position in the list (aI)"""
    import subprocess
    from vlib.common import PY
    from vlib.sim import fastq as fq
    from vlib.spec import layouts as LY
    from vlib.props.c01 import CLI_DRIVER
    acc = Acc()
    r = rng(case['seed'], 'C03', 'cli_si', case['j'])
    name = r.choice(['NLAIII384C8U3', 'CS2C8U6', 'scCHIC384C8U3'])
    k = r.choice([0, 1, 1, 2])
    L = 6
    base = ''.join(r.choice('ACGT') for _ in range(L))
    chosen = [base]
    # selected indices at distance 1-2 of each other (ties between them exist) plus unrelated ones
    while len(chosen) < r.randint(2, 5):
        src = r.choice(chosen) if r.random() < 0.7 else ''.join(r.choice('ACGT') for _ in range(L))
        b = list(src)
        for p_ in r.sample(range(L), r.choice([1, 2, 2])):
            b[p_] = r.choice([c for c in 'ACGT' if c != b[p_]])
        cand = ''.join(b)
        if cand not in chosen:
            chosen.append(cand)
    selected = [(b, str(i)) for i, b in enumerate(chosen)]
    with Scratch('c03cli') as d:
        wl = fq.load_whitelists(os.path.join(fq.REPO_DEMUX, 'barcodes'))
        lay = LY.LAYOUTS[name]
        pairs = []
        observed = []
        for b in chosen:
            observed.append(b)
            for _ in range(6):
                x = list(b)
                for p_ in r.sample(range(L), r.choice([1, 1, 2, 3])):
                    x[p_] = r.choice([c for c in 'ACGTN' if c != x[p_]])
                observed.append(''.join(x))
        # sequences exactly between two selected indices
        for a_ in chosen:
            for b_ in chosen:
                diff = [i for i in range(L) if a_[i] != b_[i]]
                if a_ < b_ and len(diff) == 2:
                    observed.append(''.join(b_[i] if i == diff[0] else a_[i] for i in range(L)))
        observed += [''.join(r.choice('ACGT') for _ in range(L)) for _ in range(10)]
        for i, idx in enumerate(observed):
            p_ = fq.make_pair(r, lay, wl.get(lay['alias'], []), 'good', i + 1, 9100 + case['j'], hdr_kind='illumina', index_seq=idx, qmax=41, p_n=0.0,
                              insert_len=[30, 30], needs=lay.get('needs'))
            p_['index_observed'] = idx
            pairs.append(p_)
        indir = os.path.join(d, 'fastq')
        os.makedirs(indir)
        files = [os.path.join(indir, 'LIBSI_S1_L001_R1_001.fastq.gz'), os.path.join(indir, 'LIBSI_S1_L001_R2_001.fastq.gz')]
        fq.write_fastq(files, pairs)
        drv = os.path.join(d, 'drv.py')
        with open(drv, 'w') as f:
            f.write(CLI_DRIVER)
        out = os.path.join(d, 'out')
        p = subprocess.run([PY, drv] + files + ['-use', name, '--y', '-o', out, '-si', ','.join(chosen), '-hdi', str(k), '-hd', '0'],
                           capture_output=True, text=True, timeout=600, cwd=d)
        acc.count('cli:si_runs')
        cfg = {'strategy': name, 'selected_indices': chosen, 'hdi': k}
        if p.returncode != 0:
            raise RuntimeError(f'demux.py -si exited {p.returncode}: {p.stderr[-400:]}')
        got = {}
        for what in ('demultiplexed', 'rejects'):
            recs, err = fq.read_fastq_strict(os.path.join(out, 'LIBSI', f'{what}R1.fastq.gz'))
            if err:
                raise RuntimeError(f'{what}R1: {err}')
            for h, *_ in recs:
                rid = fq.record_id(h)
                t = fq.parse_out_header(h) if h.startswith('@Is') else {}
                got[rid[0]] = (what, t.get('aA'), t.get('aI'))
        for pr in pairs:
            q = pr['index_observed']
            verdict, val = oracle(selected, q, k)
            acc.count('oracle:' + verdict)
            acc.evals += 1
            acc.count('cli:si_reads_checked')
            g = got.get(pr['id'])
            ctx = dict(cfg, observed=q)
            if g is None:
                acc.violate('cli-si-read-vanished', f'-si {chosen} -hdi {k}: the read with index {q} is in neither output', ctx)
                continue
            if verdict == 'assigned':
                idx, bc, dist = val
                if g[0] != 'demultiplexed' or g[1] != bc or str(g[2]) != str(idx):
                    mech = 'nearest-not-assigned' if g[0] != 'demultiplexed' else 'wrong-assignment'
                    acc.violate(mech, f'demux.py -si {",".join(chosen)} -hdi {k}: header index {q} should be corrected to {bc} (position {idx}, distance {dist}) '
                                      f'but the read is in {g[0]} with aA={g[1]} aI={g[2]}', ctx)
            elif g[0] == 'demultiplexed':
                mech = {'tie': 'tie-resolved-arbitrarily', 'too_far': 'assigned-beyond-k', 'none': 'assigned-wrong-length'}[verdict]
                acc.violate(mech, f'demux.py -si {",".join(chosen)} -hdi {k}: header index {q} is {verdict} (min distance {val}) but the read was kept with '
                                  f'aA={g[1]} aI={g[2]}', ctx)
            if verdict in ('assigned', 'tie') or (verdict == 'too_far' and val <= 2):
                acc.distinct += 1
        acc.sample = {'cli_si': cfg, 'observed_indices': observed[:12]}
    return acc


def run_case(case):
    if case.get('kind') == 'cli_si':
        return run_cli_si(case)
    from singlecellmultiomics.barcodeFileParser import barcodeFileParser as bfp
    acc = Acc()
    hook = Hook(acc)
    hook.install(bfp.BarcodeParser)
    try:
        if case['kind'] == 'generated':
            _generated(case, acc, hook, bfp)
        else:
            _shipped(case, acc, hook, bfp)
    finally:
        hook.remove()
    return acc


def _generated(case, acc, hook, bfp):
    r = rng(case['seed'], 'C03', 'wl', case['i'])
    L, k = case['L'], case['k']
    wl = gen_whitelist(r, L, case['n'])
    if case['index_kind'] == 'int':
        ids = r.sample(range(0, 1000), len(wl))
        if r.random() < 0.3:
            ids[r.randrange(len(ids))] = 0      # cell index 0 is an index like any other
            ids = list(dict.fromkeys(ids)) + r.sample(range(1000, 2000), len(wl))
            ids = ids[:len(wl)]
    else:
        ids = [f'cell_{j}x' for j in r.sample(range(1, 1000), len(wl))]
    if case['style'] == 'single':
        ids = list(range(1, len(wl) + 1))
    with Scratch('c03') as d:
        bdir = os.path.join(d, 'bcs')
        os.makedirs(bdir)
        alias = 'gen'
        path = os.path.join(bdir, alias + '.bc' + ('.gz' if case['gz'] else ''))
        op = gzip.open if case['gz'] else open
        with op(path, 'wt') as f:
            for bc, idx in zip(wl, ids):
                if case['style'] == 'single':
                    f.write(bc + '\n')
                elif case['style'] == 'index_first':
                    f.write(f'{idx}{case["sep"]}{bc}\n')
                else:
                    f.write(f'{bc}{case["sep"]}{idx}\n')
        # a decoy alias in the same directory: must never leak into answers
        with open(os.path.join(bdir, 'decoy.bc'), 'w') as f:
            for j in range(5):
                f.write(f'{j + 1}\t{"".join(r.choice("ACGT") for _ in range(L))}\n')
        truth = parse_file_independently(path, case['style'])
        assert [t[0] for t in truth] == wl
        if case['load'] == 'eager':
            p = bfp.BarcodeParser(barcodeDirectory=bdir, hammingDistanceExpansion=k)
        elif case['load'] == 'lazy_alias':
            p = bfp.BarcodeParser(barcodeDirectory=bdir, hammingDistanceExpansion=k, lazyLoad=(alias,))
        elif case['load'] == 'lazy_star':
            p = bfp.BarcodeParser(barcodeDirectory=bdir, hammingDistanceExpansion=k, lazyLoad='*')
        else:  # the way demux.py -si builds its index parser
            empty = os.path.join(d, 'empty')
            os.makedirs(empty)
            p = bfp.BarcodeParser(barcodeDirectory=empty)
            alias = 'user'
            for bc, idx in truth:
                p.addBarcode(alias, barcode=bc, index=idx)
            p.expand(k, alias=alias)
        # history: the first attempt to load a promised (lazy) file fails transiently - the file is briefly missing, unreadable or
        # still being written - and the lookup is repeated on the same parser once the file is back
        if case['load'] in ('lazy_alias', 'lazy_star') and case.get('first_load_fault'):
            fault = case['first_load_fault']
            acc.count('history:first_load_failed_then_retried')
            whole = open(path, 'rb').read()
            if fault == 'truncated' and not case['gz']:
                fault = 'missing'
            restore = None
            if fault == 'missing':
                os.rename(path, path + '.away')
            elif fault == 'truncated':
                with open(path, 'wb') as f:
                    f.write(whole[:max(1, len(whole) // 2)])
            else:
                # the process is out of file descriptors when the file is opened (builtins.open is what every way of opening the file -
                # plain or through gzip - ends up calling, so the injection does not depend on how the parser opens it)
                import builtins
                import errno
                real_open = builtins.open

                def no_handles(file, *a, **kw):
                    if isinstance(file, (str, bytes, os.PathLike)) and os.path.abspath(os.fsdecode(file)) == os.path.abspath(path):
                        raise OSError(errno.EMFILE, 'Too many open files (injected)')
                    return real_open(file, *a, **kw)
                builtins.open = no_handles

                def restore():
                    builtins.open = real_open
            failed = False
            try:
                p.getIndexCorrectedBarcodeAndHammingDistance(wl[0], alias)
                hook.calls.pop()
            except Exception:
                failed = True
            finally:
                if restore:
                    restore()
            if failed:
                acc.count('history:first_load_raised')
            if fault == 'missing':
                os.rename(path + '.away', path)
            elif fault == 'truncated':
                with open(path, 'wb') as f:
                    f.write(whole)
        # the real command line lists the strategies (getTargetCount) before the first lookup; other callers read the mapping first
        touch = r.choice(['none', 'none', 'getTargetCount', 'getBarcodeMapping', 'barcodes_attr', 'decoy_lookup'])
        if touch == 'getTargetCount':
            p.getTargetCount(alias)
        elif touch == 'getBarcodeMapping':
            p.getBarcodeMapping().get(alias)
            p.getBarcodeMapping()[alias]
        elif touch == 'barcodes_attr':
            len(p.barcodes[alias])
        elif touch == 'decoy_lookup':
            p.getIndexCorrectedBarcodeAndHammingDistance('A' * L, 'decoy')
            hook.calls.pop()
        acc.count('history:touch_before_first_lookup', 0 if touch == 'none' else 1)
        ctx = {'whitelist': truth, 'load': case['load'], 'style': case['style'], 'touched_before_lookup': touch,
               'first_load_fault': case.get('first_load_fault') if case['load'].startswith('lazy') else None}
        wlh = sha(truth)
        queries = [''.join(t) for t in itertools.product(ALPH, repeat=L)]
        r.shuffle(queries)  # access order matters for lazy loading: first query triggers the load
        queries += [q[:-1] for q in queries[:20]] + [q + 'A' for q in queries[:20]]
        for q in queries:
            n0 = len(hook.calls)
            res = p.getIndexCorrectedBarcodeAndHammingDistance(q, alias)
            assert len(hook.calls) == n0 + 1
            verdict, val = decide(acc, truth, {}, q, k, res, ctx)
            if verdict in ('assigned', 'tie') or (verdict == 'too_far' and val <= 2):
                acc.distinct += 1
        if acc.sample is None:
            acc.sample = {'whitelist': truth[:6], 'k': k, 'load': case['load'], 'style': case['style'],
                          'queries': len(queries), 'first_results': [[c[0], list(c[2])] for c in hook.calls[:4]]}


def _shipped(case, acc, hook, bfp):
    r = rng(case['seed'], 'C03', 'ship', case['file'], case['k'])
    base = os.path.join(os.environ.get('SCMO_REPO', '/repo'), 'singlecellmultiomics', 'modularDemultiplexer', case['dir'])
    path = os.path.join(base, case['file'])
    k = case['k']
    style = sniff_style(path)
    truth = parse_file_independently(path, style)
    dups = {}
    for bc, idx in truth:
        dups.setdefault(bc, set()).add(idx)
    dups = {b: s for b, s in dups.items() if len(s) > 1}
    # load only this file: copy into a scratch directory (the directory loader reads every file)
    with Scratch('c03s') as d:
        import shutil
        shutil.copy(path, os.path.join(d, case['file']))
        p = bfp.BarcodeParser(barcodeDirectory=d, hammingDistanceExpansion=k,
                              lazyLoad='*' if r.random() < 0.5 else None)
        alias = p.path_to_barcode_alias(path)
        members = [bc for bc, _ in truth]
        alphabet_ok = [bc for bc in members if all(c in ALPH for c in bc)]
        qs = list(members)
        for bc in r.sample(alphabet_ok, min(case['n_members'], len(alphabet_ok))):
            for pos in range(len(bc)):
                for c in ALPH:
                    if c != bc[pos]:
                        qs.append(bc[:pos] + c + bc[pos + 1:])
        for _ in range(case['n_random']):
            if not alphabet_ok:
                break
            bc = list(r.choice(alphabet_ok))
            for pos in r.sample(range(len(bc)), min(len(bc), r.choice([2, 2, 3]))):
                bc[pos] = r.choice(ALPH)
            qs.append(''.join(bc))
            L = len(r.choice(members))
            qs.append(''.join(r.choice(ALPH) for _ in range(L + r.choice([0, 0, 0, -1, 1]))))
        ctx = {'file': case['file'], 'k': k}
        seen = set()
        for q in qs:
            if q in seen:
                continue
            seen.add(q)
            res = p.getIndexCorrectedBarcodeAndHammingDistance(q, alias)
            verdict, val = decide(acc, truth, dups, q, k, res, ctx)
            if verdict in ('assigned', 'tie') or (verdict == 'too_far' and val <= 2):
                acc.distinct += 1
        acc.sample = {'file': case['file'], 'k': k, 'entries': len(truth), 'queries': len(seen),
                      'duplicates_in_file': len(dups)}
