"""C12 - binned molecule counting is independent of how the genome is split into jobs.

Monitor: the dict returned by obtain_counts(generate_commands(..., bins_per_job=j)) for every j and several thread
counts, and the DataFrame of get_binned_counts, on generated tagged BAMs. Oracle: all job splits give the identical
matrix, and it equals an independent count over the BAM records.
"""
import os
import io
import math
import contextlib
from collections import Counter, defaultdict
from vlib.common import Acc, rng, Scratch
from vlib.sim import frags as F
from vlib.sim.bam import write_bam

PROPERTY = 'C12'
LEVEL = 'exploration'
RULE = ('generated tagged BAMs (1-3 contigs, 1-4 cells, read-1/read-2/single-end records, duplicate and qc-fail bits, MAPQ around the '
        'threshold, mp tag unique/bad/absent, DS up to D bases away from the read, allele tag DA, proper and non-proper pairs) with sites on '
        'job boundaries -1/0/+1; obtain_counts(generate_commands) for bins_per_job in 1..N and 1..8 threads (pool completion order is '
        'whatever the pool produces), key_tags None / [DA]; get_binned_counts with 1..4 processes. Non-trivial = BAM with a counted site '
        'within 1 bp of a job boundary of the split; distinct = distinct (BAM seed, bin size, bins_per_job, threads, key tags).'
        ' Plus sites as far from the read as the fetch margin allows with read order differing from site order at the end of a fetch window, and ignore_mp=True runs.')
ASSUMPTIONS = ['max_fragment_size >= distance between a read and its DS site (the fetch margin must cover it)',
               'get_binned_counts applies its documented default filter (read 1, not duplicate, not qc-fail, DS present) without MAPQ / mp']
MIN_NONTRIVIAL = {'quick': 150, 'thorough': 8000}
REQUIRED_MONITORS = ['config:bin_size_not_a_round_number', 'multibam:count_runs', 'pipeline:count_runs', 'ret:obtain_counts', 'ret:get_binned_counts', 'oracle:matrix_cells_compared', 'splits:compared', 'lib:non_proper_pairs',
                     'lib:sites_on_job_boundary', 'lib:reads_with_site_0', 'history:shared_options_dict_rounds', 'genomic_bins:count_runs', 'lib:read_name_shared_by_several_records']
SHARD_TIMEOUT = {'quick': 900, 'thorough': 5400}


def gen_cases(tier, seed):
    n = 48 if tier == 'quick' else 1600
    cases = [{'i': i, 'seed': seed} for i in range(n)]
    # end to end: a simulated library tagged by the real tagger, then counted under several job splits; one count per true molecule
    for j in range(6 if tier == 'quick' else 120):
        cases.append({'kind': 'pipeline', 'j': j, 'seed': seed})
    # several BAM files handed to one generate_commands / obtain_counts call (supported: alignments_path may be a list)
    for j in range(10 if tier == 'quick' else 200):
        cases.append({'kind': 'multibam', 'j': j, 'seed': seed})
    # chromosome-scale contigs with the bin sizes the counting tools are used with (100 kb .. 1 Mb, also 300 / 400 kb)
    for j in range(8 if tier == 'quick' else 160):
        cases.append({'kind': 'genomic_bins', 'j': j, 'seed': seed})
    return cases


def run_genomic_bins_case(case):
    from singlecellmultiomics.bamProcessing import bamBinCounts as bbc
    acc = Acc()
    r = rng(case['seed'], 'C12', 'genomic_bins', case['j'])
    bin_size = [300_000, 400_000, 250_000, 1_000_000, 100_000, 300_000, 700_000, 150_000][case['j'] % 8]
    contigs = [('chr1', r.choice([2_400_000, 3_100_000, 5_050_000]) + r.randint(0, 5000)), ('chr2', r.choice([900_000, 1_300_000, 2_000_001]))]
    recs, expect = [], Counter()
    k = 0
    for tid, (name, ln) in enumerate(contigs):
        sites = [r.randrange(0, ln) for _ in range(40)]
        # sites on both sides of every multiple of 100 kb / of the bin size / of 1 Mb, for the same cell
        for edge in set(list(range(bin_size, ln, bin_size)) + list(range(1_000_000, ln, 1_000_000)) + list(range(500_000, ln, 500_000))):
            sites += [edge - r.randint(1, 60_000), edge - 1, edge, edge + r.randint(1, 60_000)]
        for site in sites:
            site = min(max(site, 0), ln - 1)
            cell = f'LIB_{r.randint(1, 2)}'
            pos = min(site, ln - 31)
            recs.append({'name': f'g{k}', 'flag': 64, 'tid': tid, 'pos': pos, 'mapq': 60, 'cigar': '30M', 'seq': 'A' * 30, 'qual': [30] * 30, 'tags': {'SM': cell, 'DS': site}})
            k += 1
            b0 = (site // bin_size) * bin_size
            expect[(name, b0, min(b0 + bin_size, ln), cell)] += 1
    with Scratch('c12g') as dd:
        bam = write_bam(os.path.join(dd, 'big.bam'), contigs, recs)
        first = None
        for bpj in (1, 2, 3, 50):
            threads = r.choice([1, 2, 4])
            cmds = list(bbc.generate_commands(bam, bin_size=bin_size, bins_per_job=bpj, min_mq=20, max_fragment_size=1000, key_tags=None, dedup=True, kwargs={}))
            try:
                with contextlib.redirect_stdout(io.StringIO()):
                    res = bbc.obtain_counts(cmds, reference=None, live_update=False, threads=threads)
            except Exception as ex:
                acc.violate('obtain_counts-raised:' + type(ex).__name__, f'obtain_counts raised {ex!r} (bin {bin_size}, bins_per_job={bpj})', {'bin_size': bin_size})
                continue
            acc.evals += 1
            acc.count('genomic_bins:count_runs')
            got = Counter()
            for bin_id, sd in res.items():
                for sample, n in sd.items():
                    if n:
                        got[tuple(bin_id) + (sample,)] += n
            acc.count('oracle:matrix_cells_compared', len(set(got) | set(expect)))
            if got != expect:
                miss, extra = expect - got, got - expect
                acc.violate('genomic-bins-count-differs', f'bin {bin_size}, bins_per_job {bpj}, threads {threads}, contigs {contigs}: total {sum(got.values())} expected '
                                                          f'{sum(expect.values())}; missing {list(miss.items())[:3]} extra {list(extra.items())[:3]}',
                            {'bin_size': bin_size, 'bins_per_job': bpj, 'threads': threads, 'contigs': contigs})
            if first is not None and got != first:
                acc.violate('matrix-depends-on-job-split', f'chromosome-scale contigs, bin {bin_size}: bins_per_job={bpj} differs from bins_per_job=1', {'bin_size': bin_size})
            first = first if first is not None else got
            acc.sigs.add(f"genomic/{case['j']}/{bpj}")
        acc.sample = {'genomic_bins': {'bin_size': bin_size, 'contigs': contigs, 'expected_total': sum(expect.values())}}
    return acc


def run_multibam_case(case):
    from singlecellmultiomics.bamProcessing import bamBinCounts as bbc
    acc = Acc()
    r = rng(case['seed'], 'C12', 'multibam', case['j'])
    bin_size = r.choice([100, 250, 1000])
    nbam = r.randint(2, 3)
    expect = Counter()
    with Scratch('c12m') as dd:
        bams = []
        for b in range(nbam):
            # the same contig names in every file, but different lengths (different references / assemblies / truncated test files)
            contigs = [('chr1', r.choice([1900, 3100, 6500, 12000]) + r.randint(0, bin_size)), ('chr2', r.choice([900, 2500, 4100]) + r.randint(0, bin_size))]
            recs = []
            for k in range(r.randint(15, 60)):
                tid = r.randrange(2)
                name, ln = contigs[tid]
                site = r.choice([r.randrange(0, ln), ln - 1 - r.randint(0, bin_size), r.randrange(max(0, ln - 2 * bin_size), ln)])
                site = min(max(site, 0), ln - 1)
                pos = min(site, ln - 31)
                cell = f'LIB{b}_{r.randint(1, 3)}'          # samples differ between the files
                recs.append({'name': f'b{b}q{k}', 'flag': 64, 'tid': tid, 'pos': pos, 'mapq': 60, 'cigar': '30M', 'seq': 'A' * 30, 'qual': [30] * 30,
                             'tags': {'SM': cell, 'DS': site}})
                b0 = (site // bin_size) * bin_size
                expect[(name, b0, min(b0 + bin_size, ln), cell)] += 1
            bams.append(write_bam(os.path.join(dd, f'lib{b}.bam'), contigs, recs))
        first = None
        for bpj in (1, 3, 1000):
            threads = r.choice([1, 1, 2, 4])
            cmds = list(bbc.generate_commands(bams, bin_size=bin_size, bins_per_job=bpj, min_mq=20, max_fragment_size=500, key_tags=None, dedup=True, kwargs={}))
            if r.random() < 0.5:
                r.shuffle(cmds)
            try:
                with contextlib.redirect_stdout(io.StringIO()):
                    res = bbc.obtain_counts(cmds, reference=None, live_update=False, threads=threads)
            except Exception as ex:
                acc.violate('obtain_counts-raised:' + type(ex).__name__, f'obtain_counts on {nbam} BAMs raised {ex!r} (bins_per_job={bpj}, threads={threads})', {'bin_size': bin_size})
                continue
            acc.evals += 1
            acc.count('ret:obtain_counts')
            acc.count('multibam:count_runs')
            got = Counter()
            for bin_id, sd in res.items():
                for sample, n in sd.items():
                    if n:
                        got[tuple(bin_id) + (sample,)] += n
            acc.count('oracle:matrix_cells_compared', len(set(got) | set(expect)))
            if got != expect:
                miss, extra = expect - got, got - expect
                acc.violate('multi-bam-count-differs', f'{nbam} BAMs, bin {bin_size}, bins_per_job {bpj}, threads {threads}: missing {list(miss.items())[:3]} extra {list(extra.items())[:3]} '
                                                       f'(total {sum(got.values())} expected {sum(expect.values())})', {'bin_size': bin_size, 'bins_per_job': bpj, 'threads': threads})
            if first is not None and got != first:
                acc.violate('matrix-depends-on-job-split', f'multi-BAM: bins_per_job={bpj} differs from bins_per_job=1', {'bin_size': bin_size})
            first = first if first is not None else got
            acc.count('splits:compared')
            acc.sigs.add(f"multibam/{case['j']}/{bpj}/{threads}")
        acc.sample = {'multibam': {'files': nbam, 'bin_size': bin_size, 'expected_total': sum(expect.values())}}
    return acc


def run_pipeline_case(case):
    from singlecellmultiomics.bamProcessing import bamBinCounts as bbc
    from vlib import tagger as T
    acc = Acc()
    r = rng(case['seed'], 'C12', 'pipeline', case['j'])
    method = r.choice(['nla', 'chic'])
    bin_size = r.choice([200, 500, 1000])
    contigs = [('chr1', r.choice([6000, 11000])), ('chr2', 4000)][:r.randint(1, 2)]
    # sites on bin / job boundaries
    sites = []
    for name, ln in contigs:
        for _ in range(r.randint(3, 8)):
            k = r.randint(2, ln // bin_size - 2)
            sites.append((name, k * bin_size + r.choice([-1, 0, 0, 1, r.randint(2, bin_size - 2)])))
    gen, recs, truths = F.simulate_library(r, method=method, contigs=contigs, n_cells=r.randint(1, 3), n_sites=0, umis_per_site=(1, 3), copies=(1, 3),
                                           case_id=500 + case['j'], p_clip=0.2, p_invalid=0.05 if method == 'nla' else 0.0, p_umi_neighbour=0.0, umi_len=4,
                                           site_positions=sites, frag_range=(60, 280), n_unmapped=r.choice([0, 2]))
    if not truths:
        return acc
    expect = Counter()
    lens = dict(contigs)
    for key in set(t['key'] for t in truths.values() if t.get('key') and t['valid']):
        sample, contig, site, reverse, umi = key
        b0 = (site // bin_size) * bin_size
        expect[(contig, b0, min(b0 + bin_size, lens[contig]), sample)] += 1
    with Scratch('c12p') as dd:
        bam = write_bam(os.path.join(dd, 'in.bam'), gen.refs, recs)
        out = os.path.join(dd, 'tagged.bam')
        exc, txt = T.run_cli([bam, '-o', out, '-method', method, '-umi_hamming_distance', '0'])
        if exc is not None:
            acc.violate('pipeline-tagger-raised', f'tagger raised {exc!r}', {'method': method})
            return acc
        first = None
        for bpj in sorted(set([1, 2, 3, 7, 100])):
            threads = r.choice([1, 2, 4])
            cmds = list(bbc.generate_commands(out, bin_size=bin_size, bins_per_job=bpj, min_mq=20, max_fragment_size=1000, key_tags=None, dedup=True, kwargs={}))
            r.shuffle(cmds)
            with contextlib.redirect_stdout(io.StringIO()):
                res = bbc.obtain_counts(cmds, reference=None, live_update=False, threads=threads)
            acc.evals += 1
            acc.count('ret:obtain_counts')
            acc.count('pipeline:count_runs')
            got = Counter()
            for bin_id, sd in res.items():
                for sample, n in sd.items():
                    if n:
                        got[tuple(bin_id) + (sample,)] += n
            acc.count('oracle:matrix_cells_compared', len(set(got) | set(expect)))
            if got != expect:
                miss, extra = expect - got, got - expect
                acc.violate('pipeline-molecule-count-differs', f'{method} bin {bin_size} bins_per_job {bpj}: matrix of the tagged BAM differs from the number of true molecules: '
                                                               f'missing {list(miss.items())[:3]} extra {list(extra.items())[:3]}', {'method': method, 'bin_size': bin_size, 'bins_per_job': bpj})
            if first is not None and got != first:
                acc.violate('matrix-depends-on-job-split', f'pipeline: bins_per_job={bpj} differs from bins_per_job=1', {'method': method})
            first = first if first is not None else got
            acc.count('splits:compared')
            acc.sigs.add(f"pipeline/{case['j']}/{bpj}/{threads}")
        acc.sample = {'pipeline': {'method': method, 'bin_size': bin_size, 'true_molecules': sum(expect.values()), 'fragments': len(truths)}}
    return acc


UNTAGGED = [0]
# what a read without a sample tag is called is the tool's business ('bulk' in one counter, 'No_Sample' in the other): one label here
UNTAGGED_LABEL = '<no sample tag>'


def canon_sample(x):
    return UNTAGGED_LABEL if x in ('bulk', 'No_Sample', None) else x


def run_case(case):
    if case.get('kind') == 'pipeline':
        return run_pipeline_case(case)
    if case.get('kind') == 'multibam':
        return run_multibam_case(case)
    if case.get('kind') == 'genomic_bins':
        return run_genomic_bins_case(case)
    import pysam
    from singlecellmultiomics.bamProcessing import bamBinCounts as bbc
    acc = Acc()
    r = rng(case['seed'], 'C12', case['i'])
    bin_size = r.choice([100, 250, 1000])
    if case['i'] % 4 == 2:
        # bin sizes that are no round numbers (the bin of a site is site // bin_size for every integer, also where 1/bin_size is inexact)
        bin_size = [49, 98, 103, 107, 161, 187, 196, 197, 206, 249, 253, 77, 333, 1001, 57, 93][(case['i'] // 4) % 16]
        acc.count('config:bin_size_not_a_round_number')
    mfs = r.choice([50, 300, 1000])
    D = r.choice([0, 5, 40, mfs])      # a site may be as far from its read as the fetch margin allows, in either direction
    min_mq = r.choice([0, 20, 50])
    contigs = [(f'chr{j + 1}', r.choice([2000, 5000, 12000]) + r.randint(0, bin_size)) for j in range(r.randint(1, 3))]
    if case['i'] % 4 == 3:
        # contig names with the characters region strings are made of
        contigs[-1] = (r.choice(['HLA-A*01:01', 'chrUn_KI270302v1', 'NC_000001.11', 'gi|9626243|ref|NC_001416.1|']), contigs[-1][1])
        acc.count('lib:contig_name_with_separator_characters')
    cells = [f'LIB_{j}' for j in range(1, r.randint(1, 4) + 1)]
    bpj_all = sorted(set([1, 2, 3, 5, 10, max(1, max(l for _, l in contigs) // bin_size + 1)]))
    boundaries = [bin_size * b for b in bpj_all]
    recs = []
    expect = Counter()       # obtain_counts semantics: (contig, bin_start, bin_end, sample) / with DA
    expect_da = Counter()
    expect_gbc = Counter()   # get_binned_counts semantics
    expect_imp = Counter()   # with the mappability tag ignored (ignore_mp=True): every other filter still applies
    countable = []           # (matrix cell, mapping quality) of every record that is counted at threshold 0
    rid = 1
    nonproper = 0
    on_boundary = 0
    sites_list = []
    last_single = [None]
    for tid, (name, ln) in enumerate(contigs):
        plan = []
        rl = 30
        for _ in range(r.randint(10, 60)):
            if r.random() < 0.5:
                b = r.choice(boundaries)
                site = b * r.randint(1, max(1, ln // b)) + r.choice([-1, 0, 1])
            else:
                site = r.randrange(0, ln)
            site = min(max(site, 0), ln - 1)
            off = r.randint(-D, D) if D else 0
            pos = min(max(site + off, 0), ln - rl - 1)
            plan.append((site, pos, False))
        # the very first base of a contig is a site like any other: reads on it, and reads as far away from it as the margin allows
        for _ in range(r.randint(1, 3)):
            plan.append((0, r.choice([0, min(D, ln - rl - 1)]), False))
            acc.count('lib:reads_with_site_0')
        if D >= 12:
            # around the end of a job's fetch window: a read that is fetched by the job although its site lies behind the window, directly
            # followed (in coordinate order) by a read whose site lies inside the job - read order and site order differ
            for _ in range(r.randint(1, 3)):
                b = r.choice(boundaries)
                e = b * r.randint(1, max(1, ln // b))
                a_pos = e + mfs - r.randint(2, 11)
                b_pos = a_pos + r.randint(0, 2)
                if b_pos + rl + 1 < ln and a_pos + D < ln and b_pos - D >= 0:
                    plan.append((a_pos + D, a_pos, True))
                    plan.append((b_pos - D, b_pos, True))
                    acc.count('lib:site_order_differs_from_read_order')
        for site, pos, forced in plan:
            if abs(pos - site) > mfs:
                continue
            cell = r.choice(cells)
            untagged = r.random() < 0.08      # a read without a sample tag is counted under the sample 'bulk'
            mapq = r.choice([0, 19, 20, 49, 50, 60]) if not forced else 60
            dup = r.random() < 0.25 and not forced
            qcf = r.random() < 0.1 and not forced
            mp = r.choice([None, None, 'unique', 'bad', 'unknown'])
            da = r.choice([None, 'A', 'B'])
            kind = r.choice(['proper', 'proper', 'nonproper', 'single', 'r2only'])
            tags = {'SM': cell, 'DS': site, 'RC': 1 if dup else 0}
            if r.random() < 0.1:
                tags['DS'] = str(site)      # the site stored as text (DS:Z:...) instead of as an integer
                acc.count('lib:site_tag_stored_as_text')
            if untagged:
                del tags['SM']
                cell = UNTAGGED_LABEL
                UNTAGGED[0] += 1
            if mp:
                tags['mp'] = mp
            if da:
                tags['DA'] = da
            qn = f'q{rid}'
            if kind == 'single':
                # a read name that occurs on several single-end records (merged libraries with colliding names, split alignments): every record is
                # its own record (names of paired templates stay unique - mates are found by name)
                if last_single[0] is not None and r.random() < 0.4:
                    qn = last_single[0]
                    acc.count('lib:read_name_shared_by_several_records')
                last_single[0] = qn
            base_flag = (1024 if dup else 0) | (512 if qcf else 0)
            if kind == 'single':
                flags = [(64 | base_flag, pos)]
            elif kind == 'r2only':
                flags = [(1 | 128 | base_flag, pos)]
            else:
                pp = 2 if kind == 'proper' else 0
                if kind == 'nonproper':
                    nonproper += 1
                flags = [(1 | pp | 64 | 32 | base_flag, pos), (1 | pp | 128 | 16 | base_flag, min(pos + r.randint(0, 40), ln - rl - 1))]
            for fl, p in flags:
                recs.append({'name': qn, 'flag': fl, 'tid': tid, 'pos': p, 'mapq': mapq, 'cigar': f'{rl}M', 'seq': 'A' * rl, 'qual': [30] * rl,
                             'tags': dict(tags), 'next_tid': tid if fl & 1 else -1, 'next_pos': p if fl & 1 else -1})
            is_r1 = kind != 'r2only'
            b0 = (site // bin_size) * bin_size
            b1 = min(b0 + bin_size, ln)
            if is_r1 and not dup and not qcf and (mp is None or mp == 'unique') and mapq >= min_mq:
                expect[(name, b0, b1, cell)] += 1
                expect_da[(da, name, b0, b1, cell)] += 1
                if any(abs(site - k * bb) <= 1 for bb in boundaries for k in range(1, ln // bb + 2)):
                    on_boundary += 1
            if is_r1 and not dup and not qcf and mapq >= min_mq:
                expect_imp[(name, b0, b1, cell)] += 1
            if is_r1 and not dup and not qcf and (mp is None or mp == 'unique'):
                countable.append(((name, b0, b1, cell), mapq))
            if is_r1 and not dup and not qcf:
                expect_gbc[(name, b0, cell)] += 1
            sites_list.append(site)
            rid += 1
    acc.count('lib:non_proper_pairs', nonproper)
    acc.count('lib:reads_without_sample_tag', UNTAGGED[0])
    UNTAGGED[0] = 0
    acc.count('lib:sites_on_job_boundary', on_boundary)
    cfg = {'bin_size': bin_size, 'D': D, 'max_fragment_size': mfs, 'min_mq': min_mq, 'contigs': contigs, 'cells': len(cells), 'records': len(recs)}
    with Scratch('c12') as dd:
        bam = write_bam(os.path.join(dd, 'tagged.bam'), contigs, recs)

        def flatten(counts, with_da):
            out = Counter()
            for bin_id, sd in counts.items():
                for sample, n in sd.items():
                    if n:
                        out[tuple(bin_id) + (canon_sample(sample),)] += n
            return out
        first = {}
        for key_tags in (None, ['DA'], 'ignore_mp'):
            ignore_mp = key_tags == 'ignore_mp'
            if ignore_mp:
                key_tags = None
            for bpj in (bpj_all if not ignore_mp else r.sample(bpj_all, min(2, len(bpj_all)))):
                threads = r.choice([1, 2, 3, 4, 8])
                cmds = list(bbc.generate_commands(bam, bin_size=bin_size, bins_per_job=bpj, min_mq=min_mq, max_fragment_size=mfs,
                                                  key_tags=key_tags, dedup=True, kwargs={'ignore_mp': True} if ignore_mp else {}))
                if ignore_mp:
                    acc.count('option:ignore_mp')
                r.shuffle(cmds)   # the order in which jobs are handed to the pool is part of the schedule
                try:
                    with contextlib.redirect_stdout(io.StringIO()):
                        res = bbc.obtain_counts(cmds, reference=None, live_update=False, threads=threads)
                except Exception as ex:
                    acc.violate('obtain_counts-raised:' + type(ex).__name__, f'obtain_counts raised {ex!r} (bins_per_job={bpj}, threads={threads}, {cfg})', {'config': cfg})
                    continue
                acc.evals += 1
                acc.count('ret:obtain_counts')
                got = flatten(res, key_tags is not None)
                exp = expect_da if key_tags else (expect_imp if ignore_mp else expect)
                acc.count('oracle:matrix_cells_compared', len(set(got) | set(exp)))
                wit = {'config': cfg, 'bins_per_job': bpj, 'threads': threads, 'key_tags': key_tags, 'ignore_mp': ignore_mp, 'jobs': [c[3:6] for c in cmds][:20]}
                if got != exp:
                    miss = exp - got
                    extra = got - exp
                    job_w = bin_size * bpj
                    near = [k for k in list(miss) + list(extra)]
                    if extra and not miss:
                        mech = 'site-counted-in-two-jobs' if all(True for _ in extra) else 'overcount'
                    elif miss and not extra:
                        mech = 'site-not-counted'
                    else:
                        mech = 'count-matrix-differs'
                    acc.violate(mech, f'obtain_counts(bins_per_job={bpj}, threads={threads}, key_tags={key_tags}) differs from the independent count: '
                                      f'{sum(miss.values())} missing {list(miss.items())[:3]}, {sum(extra.values())} extra {list(extra.items())[:3]}; job width {job_w} ({cfg})',
                                dict(wit, missing=[str(x) for x in list(miss.items())[:8]], extra=[str(x) for x in list(extra.items())[:8]]))
                fk = 'da' if key_tags else ('imp' if ignore_mp else 'plain')
                if fk in first and first[fk][1] != got:
                    acc.violate('matrix-depends-on-job-split', f'bins_per_job={bpj} gives a different matrix than bins_per_job={first[fk][0]} ({cfg})', wit)
                first.setdefault(fk, (bpj, got))
                acc.count('splits:compared')
                if on_boundary:
                    acc.sigs.add(f"{case['i']}/{bin_size}/{bpj}/{threads}/{key_tags}")
        # ---- history: one options dictionary serves several counting rounds with different thresholds, the jobs run in the calling process
        # (the same dictionary object travels with every command of every round)
        if case['i'] % 2 == 0:
            opts = {}
            for mq in r.sample([0, 20, 50, 60], 3):
                cmds = list(bbc.generate_commands(bam, bin_size=bin_size, bins_per_job=r.choice(bpj_all), min_mq=mq, max_fragment_size=mfs,
                                                  key_tags=None, dedup=True, kwargs=opts))
                merged = {}
                try:
                    with contextlib.redirect_stdout(io.StringIO()):
                        for cmd in cmds:
                            for bin_id, sd in bbc.count_fragments_binned(cmd).items():
                                tgt = merged.setdefault(bin_id, Counter())
                                for sample, n in sd.items():
                                    tgt[sample] += n
                except Exception as ex:
                    acc.violate('count_fragments_binned-raised:' + type(ex).__name__, f'in-process counting raised {ex!r} (min_mq={mq}, {cfg})', {'config': cfg})
                    break
                acc.evals += 1
                acc.count('history:shared_options_dict_rounds')
                got = flatten(merged, False)
                exp = Counter()
                for cell_key, q_ in countable:
                    if q_ >= mq:
                        exp[cell_key] += 1
                if got != exp:
                    acc.violate('count-depends-on-earlier-round', f'in-process round with min_mq={mq} on an options dictionary used by earlier rounds: total '
                                                                  f'{sum(got.values())} expected {sum(exp.values())} ({cfg})', {'config': cfg, 'min_mq': mq})
                    break
        # ---- get_binned_counts
        nt = r.choice([1, 2, 4])
        try:
            with contextlib.redirect_stdout(io.StringIO()):
                df = bbc.get_binned_counts([bam], bin_size, n_threads=nt)
            acc.evals += 1
            acc.count('ret:get_binned_counts')
            got = Counter()
            for idx, row in df.iterrows():
                for sample, v in row.items():
                    if v is not None and not (isinstance(v, float) and math.isnan(v)) and v != 0:
                        got[(idx[0], int(idx[1]), canon_sample(sample))] += int(v)
            acc.count('oracle:matrix_cells_compared', len(set(got) | set(expect_gbc)))
            if got != expect_gbc:
                miss = expect_gbc - got
                extra = got - expect_gbc
                ratio = sum(got.values()) / max(1, sum(expect_gbc.values()))
                mech = 'get_binned_counts-overcounts' if extra and not miss else 'get_binned_counts-undercounts' if miss and not extra else 'get_binned_counts-differs'
                acc.violate(mech, f'get_binned_counts total {sum(got.values())} expected {sum(expect_gbc.values())} (x{ratio:.2f}); extra {list(extra.items())[:3]} '
                                  f'missing {list(miss.items())[:3]} ({cfg})', {'config': cfg, 'n_threads': nt})
        except Exception as ex:
            acc.violate('get_binned_counts-raised:' + type(ex).__name__, f'get_binned_counts raised {ex!r} ({cfg})', {'config': cfg})
    acc.sample = {'config': cfg, 'bins_per_job_tried': bpj_all, 'expected_total': sum(expect.values()), 'expected_total_get_binned_counts': sum(expect_gbc.values()),
                  'sites_on_job_boundary': on_boundary, 'non_proper_pairs': nonproper}
    return acc
