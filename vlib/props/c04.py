"""C04 - read-name encoding round-trips: FASTQ header -> BAM tags restores every field.

Monitor: the header serialised by the real demultiplexer (files written by FastqHandle) is used as the
query name of alignments written to and read back from a real BAM; QueryNameFlagger.digest decodes it;
every restored tag is compared field by field with what went in (taken from the raw input reads through
the layout table, i.e. independently of the encoder). Totality of the quality code is enumerated.
"""
import os
import re
import io
import contextlib
from vlib.common import Acc, rng, Scratch
from vlib.sim import fastq as fq
from vlib.spec import layouts as LY
from vlib.props.c02 import get_env, cat, seg

PROPERTY = 'C04'
LEVEL = 'exploration'
RULE = ('(a) totality: phredToFastqHeaderSafeQualities / fastqHeaderSafeQualitiesToPhred on every character 33..126 and on all 94x94 '
        'two-character strings (exhaustive); (b) round trip: for every registered strategy, accepted pairs with qualities over the full '
        'phred range, library names over [A-Za-z0-9_-] of length 1..80 and all accepted header variants are serialised by the demultiplexer, '
        'stored as BAM query names, read back and decoded by QueryNameFlagger; (c) length sweep: library names chosen so that the header '
        'length crosses 240..270. Non-trivial = decoded pair with a UMI or ligation quality string containing a phred >= 52 or a header '
        'within 15 characters of the limit; distinct = distinct (strategy, library, pair id).'
        ' Plus 0-based cell indices, library names ending in 1 / 2 / 12, one library whose later reads exceed the limit, and no header above 254 characters may leave the demultiplexer; every fifth alignment already carries optional fields under names its read name encodes too.')
ASSUMPTIONS = ['pysam BAM writing/reading is the storage; its own refusal of names > 254 characters counts as a loud refusal',
               'expected field values come from the raw reads through the hand-written layout table and the independent 52-letter code']
MIN_NONTRIVIAL = {'quick': 300, 'thorough': 30000}
REQUIRED_MONITORS = ['totality:single_chars', 'totality:pairs', 'roundtrip:reads_decoded', 'roundtrip:fields_compared',
                     'length:refused_loudly', 'length:stored_exactly', 'history:fitting_then_overlong_in_one_library', 'roundtrip:cell_index_zero', 'roundtrip:mates_digested_separately', 'roundtrip:alignment_with_preexisting_fields', 'roundtrip:umi_from_an_earlier_demultiplexing_run', 'roundtrip:numeric_index_with_leading_zeros', 'roundtrip:raw_barcode_with_one_error']
SHARD_TIMEOUT = {'quick': 600, 'thorough': 3600}
PHRED_TAGS = {'QX', 'QT', 'RQ', 'BZ', 'QM', 'lq', 'aQ', 'AQ', 'E2', 'EQ', 'eq', 'is', 'H1', 'H3'}


def gen_cases(tier, seed):
    cases = [{'kind': 'totality'}]
    reps = 1 if tier == 'quick' else 30
    for name in LY.ALL_NAMES:
        for rep in range(reps):
            cases.append({'kind': 'roundtrip', 'strategy': name, 'rep': rep, 'seed': seed, 'n': 60 if tier == 'quick' else 200})
            cases.append({'kind': 'length', 'strategy': name, 'rep': rep, 'seed': seed})
    return cases


def libname(r, n):
    alpha = 'ABCDEFGHIJKLMNOPQRSTUVWXYZabcdefghijklmnopqrstuvwxyz0123456789-'
    # no underscore inside the random part: SM = LY_bi is split on '_' by downstream tools, keep it unambiguous
    return ''.join(r.choice(alpha) for _ in range(n))


def run_case(case):
    acc = Acc()
    if case['kind'] == 'totality':
        from singlecellmultiomics.modularDemultiplexer import baseDemultiplexMethods as bdm
        for c in range(33, 127):
            ch = chr(c)
            acc.evals += 1
            acc.count('totality:single_chars')
            try:
                enc = bdm.phredToFastqHeaderSafeQualities(ch, method=3)
            except Exception as ex:
                acc.violate('quality-code-not-total', f'phredToFastqHeaderSafeQualities({ch!r}) (Q{c - 33}) raised {ex!r}', {'char': ch})
                continue
            if enc != fq.hsq(ch) or len(enc) != 1:
                acc.violate('quality-code-wrong-letter', f'Q{c - 33} encoded as {enc!r} expected {fq.hsq(ch)!r}', {'char': ch})
                continue
            dec = bdm.fastqHeaderSafeQualitiesToPhred(enc, method=3)
            if dec != chr(33 + min(c - 33, 51)):
                acc.violate('quality-code-not-saturating', f'Q{c - 33} decodes to {dec!r}', {'char': ch})
            acc.distinct += 1
        for a in range(33, 127):
            for b in range(33, 127):
                s = chr(a) + chr(b)
                acc.evals += 1
                acc.count('totality:pairs')
                try:
                    enc = bdm.phredToFastqHeaderSafeQualities(s, method=3)
                    ok = enc == fq.hsq(s) and bdm.fastqHeaderSafeQualitiesToPhred(enc, method=3) == fq.hsq_decode(fq.hsq(s))
                except Exception as ex:
                    ok = False
                    enc = repr(ex)
                if not ok:
                    acc.violate('quality-code-not-total', f'quality string {s!r} -> {enc}', {'string': s})
        acc.sample = {'totality': 'all 94 phred characters and all 8836 two-character strings', 'example': {'~': fq.hsq('~'), '!': fq.hsq('!')}}
        return acc
    return roundtrip(case, acc)


def roundtrip(case, acc):
    import pysam
    from singlecellmultiomics.fastqProcessing.fastqHandle import FastqHandle
    from singlecellmultiomics.universalBamTagger.universalBamTagger import QueryNameFlagger
    name = case['strategy']
    r = rng(case['seed'], 'C04', case['kind'], name, case['rep'])
    # half of the round-trip cases demultiplex with one tolerated barcode mismatch: the raw barcode of a read then differs from the corrected one
    k = (case['rep'] + __import__('zlib').crc32(name.encode())) % 2 if case['kind'] != 'length' else 0
    case = dict(case, k=k)
    with Scratch('c04') as d:
        dmx, wl, iwl, bdir = get_env(d, r, k)
        strategy = dmx.getSelectedStrategiesFromStringList([name], verbose=False)[0]
        ends = LY.ends_of(name)
        single = ends == 'se' or (ends == 'any' and r.random() < 0.25)
        libs = []
        if case['kind'] == 'roundtrip':
            libs = [(libname(r, r.choice([1, 3, 8, 20, 40, 80])), case['n'] // 3) for _ in range(3)]
            # library names as people number them: run1, plate_12 (the library is the last field of a bulk read name)
            libs[1] = (libs[1][0] + r.choice(['1', '2', '12', '_21', '-1', '_2']), libs[1][1])
        else:
            # probe the header length of this strategy with a 1-character library, then sweep across the limit
            libs = [('L', 4)]
        case_id = 40
        rid = 0
        results = []
        for li, entry in enumerate(libs):
            lib, n = entry[:2]
            res = run_library(acc, d, dmx, strategy, name, wl, iwl, r, lib, n, single, case_id, rid, case, ids=entry[2] if len(entry) > 2 else None)
            rid += n
            results.append(res)
            if case['kind'] == 'length' and li == 0 and res and res['max_header']:
                base = res['max_header'] - 1  # header length without the library name
                for target in list(range(248, 259)) + [240, 265, 270]:
                    ln = target - base
                    if ln >= 1:
                        libs.append((libname(r, ln), 3))
                # history inside one library: reads whose header fits come first, then reads of the same library whose variable-width
                # fields (cluster coordinates) push the header over the limit, then fitting ones again
                ln = 252 - base
                if ln >= 1:
                    big = 10 ** 7
                    libs.append((libname(r, ln), 9, [1, 2, 3, big + 1, big + 2, big + 3, 4, 5, big + 4]))
                    acc.count('history:fitting_then_overlong_in_one_library')
        acc.sample = {'strategy': name, 'kind': case['kind'], 'libraries': [tuple(e[:2]) for e in libs][:6],
                      'decoded_example': next((x['example'] for x in results if x and x.get('example')), None)}
    return acc


def run_library(acc, d, dmx, strategy, name, wl, iwl, r, lib, n, single, case_id, rid0, case, ids=None):
    import pysam
    from singlecellmultiomics.fastqProcessing.fastqHandle import FastqHandle
    from singlecellmultiomics.universalBamTagger.universalBamTagger import QueryNameFlagger
    pairs = []
    for i in range(n):
        lay = LY.layout_for_generation(name, r)
        hk = r.choice(['illumina'] * 5 + ['scmo', 'scmo_umi', '3dec', 'illumina_numeric'])
        index_seq = r.choice([b for b, _ in iwl[fq.INDEX_ALIAS]])
        if hk == 'illumina_numeric':
            index_seq = str(r.randint(1, 96))
            if r.random() < 0.4:
                index_seq = r.choice(['007', '01', '0012', '00'])      # a sample number written with leading zeros is a text like any other
                acc.count('roundtrip:numeric_index_with_leading_zeros')
        base_kind = hk if hk in ('scmo', 'scmo_umi', '3dec') else 'illumina'
        wl_here = wl.get(lay['alias'], [])
        if i == 0 and any(ix == 0 for _, ix in wl_here):
            wl_here = [(b, ix) for b, ix in wl_here if ix == 0]      # the cell with index 0 is always part of the library
        kind_ = 'mm1' if (case.get('k') and i and r.random() < 0.35) else 'good'
        if kind_ == 'mm1':
            acc.count('roundtrip:raw_barcode_with_one_error')
        p = fq.make_pair(r, lay, wl_here, kind_, ids[i] if ids else rid0 + i + 1, case_id, hdr_kind=base_kind, index_seq=index_seq,
                         qmax=93, p_n=0.0, single_end=single, needs=lay.get('needs'),
                         insert_len=[r.randint(20, 60), r.randint(20, 60)])
        p['lay'], p['hk'] = lay, hk
        pairs.append(p)
    sub = os.path.join(d, f'lib{rid0}')
    os.makedirs(sub)
    files = [os.path.join(sub, 'in_R1.fastq.gz')] + ([] if single else [os.path.join(sub, 'in_R2.fastq.gz')])
    fq.write_fastq(files, pairs)
    target = FastqHandle(os.path.join(sub, 'demultiplexed'), not single)
    out = io.StringIO()
    # a refusal is observed as a ValueError leaving the serialiser (its wording is the tool's business)
    from singlecellmultiomics.modularDemultiplexer import baseDemultiplexMethods as bdm
    refusals = [0]
    orig_asfastq = bdm.TaggedRecord.asFastq

    def observed_asfastq(self_, *a_, **k_):
        try:
            return orig_asfastq(self_, *a_, **k_)
        except ValueError:
            refusals[0] += 1
            raise
    bdm.TaggedRecord.asFastq = observed_asfastq
    try:
        with contextlib.redirect_stdout(out):
            processed, yields = dmx.demultiplex(files, strategies=[strategy], targetFile=target, rejectHandle=None, library=lib)
    finally:
        bdm.TaggedRecord.asFastq = orig_asfastq
    target.close()
    byid = {p['id']: p for p in pairs}
    mates = ['R1'] + ([] if single else ['R2'])
    disk = []
    for m in mates:
        recs, err = fq.read_fastq_strict(os.path.join(sub, f'demultiplexed{m}.fastq.gz'))
        if err:
            acc.violate('serialised-output-malformed', f'{name}: {err}', {})
            return None
        disk.append(recs)
    header = pysam.AlignmentHeader.from_dict({'HD': {'VN': '1.6', 'SO': 'unsorted'}, 'SQ': [{'SN': 'chr1', 'LN': 100000}]})
    max_header = 0
    accepted = set()
    stored = []
    refused = 0
    bam = os.path.join(sub, 'aln.bam')
    with pysam.AlignmentFile(bam, 'wb', header=header) as f:
        for idx in range(len(disk[0])):
            segs = []
            ok = True
            for mi in range(len(mates)):
                h, s, _, q = disk[mi][idx]
                max_header = max(max_header, len(h) - 1)
                if len(h) - 1 > 254:
                    # a BAM record stores the name length, terminating NUL included, in one byte: 254 characters is the longest storable name
                    acc.violate('overlong-header-written-by-demultiplexer' if len(h) - 1 > 255 else 'header-of-255-characters-written-by-demultiplexer',
                                f'{name} lib of {len(lib)} chars: a header of {len(h) - 1} characters was written instead of being refused (record {idx} of '
                                f'the library); an alignment record stores at most 254', {'header': h, 'library': lib})
                a = pysam.AlignedSegment(header)
                try:
                    a.query_name = h[1:]
                except ValueError:
                    ok = False
                    refused += 1
                    acc.count('length:refused_loudly')
                    break
                a.flag = (1 | (64 if mi == 0 else 128) | (32 if mi == 0 else 16)) if len(mates) == 2 else 0
                a.reference_id = 0
                a.reference_start = 100 + idx
                a.mapping_quality = 60
                a.query_sequence = s if s else 'A'
                a.query_qualities = pysam.qualitystring_to_array(q) if s else pysam.qualitystring_to_array('I')
                a.cigarstring = f'{len(a.query_sequence)}M'
                a.set_tag('NM', 0)
                if idx % 5 == 2:
                    # the alignment already carries optional fields under names the read name encodes as well (an upstream UMI-aware tool,
                    # an aligner copying FASTQ comments, the remains of an interrupted earlier run): the decoded name is what must come out
                    enc = [k for k in fq.parse_out_header(h) if k in ('RX', 'BC', 'bc', 'RQ', 'LY', 'Fc', 'La', 'CX', 'bi', 'MX', 'aA', 'aa')]
                    for k in enc[idx % 2::2] + ['MI']:
                        a.set_tag(k, 'zz' if k != 'MI' else '1')
                    acc.count('roundtrip:alignment_with_preexisting_fields')
                segs.append(a)
            if ok:
                for a in segs:
                    f.write(a)
                stored.append((idx, [x[idx][0][1:] for x in disk]))
    # pairs whose header was refused by the demultiplexer itself (ValueError in asFastq -> generic exception path) are loud as well
    n_written = len(disk[0])
    txt = out.getvalue()
    # one refusal per pair: the first mate that does not fit raises, the pair is not written
    loud_in_demux = max(len(re.findall(r'longer than 25[45] characters', txt)), refusals[0])
    if loud_in_demux:
        acc.count('length:refused_loudly', loud_in_demux)
    qf = QueryNameFlagger()
    example = None
    name_vocabulary = set(k for _, names_ in stored for nm_ in names_ for k in fq.parse_out_header('@' + nm_))
    with pysam.AlignmentFile(bam, check_sq=False) as f:
        reads = list(f.fetch(until_eof=True))
    per = len(mates)
    for j, (idx, names) in enumerate(stored):
        grp = reads[j * per:(j + 1) * per]
        acc.evals += 1
        for a, nm in zip(grp, names):
            if a.query_name != nm:
                acc.violate('name-changed-by-storage', f'{name}: stored name differs from the header ({len(nm)} chars)', {'header': nm, 'stored': a.query_name})
        acc.count('length:stored_exactly')
        try:
            if per == 2 and j % 3 == 1:
                # the mates of a pair do not always reach the tagger together (mate on another contig / unmapped): each is decoded from
                # its own name, whichever slot it arrives in
                qf.digest([grp[0], None])
                qf.digest([None, grp[1]])
                acc.count('roundtrip:mates_digested_separately')
            else:
                qf.digest(grp if per == 2 else [grp[0], None])
        except Exception as ex:
            acc.violate('decoder-raised:' + type(ex).__name__, f'{name}: QueryNameFlagger.digest raised {ex!r} on header {names[0][:200]}',
                        {'header': names[0], 'library': lib})
            continue
        acc.count('roundtrip:reads_decoded', per)
        t0 = fq.parse_out_header('@' + names[0])
        try:
            pid = int(t0['CX']) if t0.get('CX') not in (None, '-1') else int(t0['Ti'])
        except Exception:
            acc.violate('id-lost', f'{name}: cannot identify pair from header {names[0][:100]}', {})
            continue
        pair = byid[pid]
        accepted.add(pid)
        if name in LY.LAYOUTS:
            lay = LY.LAYOUTS[name]
        else:
            alts = LY.COMPOSITES[name]['alternatives']
            dt = t0.get('dt')
            lay = ([x for x in alts if x['dt'] == dt] or [alts[0]])[0]
        exp = {}
        rd = pair['reads']
        if lay['bc']:
            raw_bc = cat(rd, lay['bc'])[0]
            near = fq.nearest(wl.get(lay['alias'], []), raw_bc, case.get('k', 0))
            exp['bc'] = raw_bc
            if near:
                exp['BC'] = near[1]
                exp['bi'] = str(near[0])
        if lay['umi']:
            u, uq = cat(rd, lay['umi'])
            exp['RX'] = u
            exp['RQ'] = fq.hsq_decode(fq.hsq(uq))
        if lay['rs']:
            exp['rS'] = seg(rd, lay['rs'])[0]
        if lay['lh']:
            lh, lq = seg(rd, lay['lh'])
            exp['lh'] = lh
            exp['lq'] = fq.hsq_decode(fq.hsq(lq))
        if lay['mx']:
            exp['MX'] = lay['mx']
        if pair['hk'] in ('illumina', 'illumina_numeric'):
            exp.update({'Is': 'NS500413', 'RN': '32', 'Fc': 'H14TKBGXX', 'La': '2', 'Ti': '11101', 'CX': str(pid), 'CY': str(pair['reads'][0][0].split(':')[6].split(' ')[0]),
                        'aa': pair['index']})
            if pair['hk'] == 'illumina':
                exp['aA'] = pair['index']
            exp['LY'] = lib
            coord = f"NS500413:32:H14TKBGXX:2:11101:{pid}:{exp['CY']}"  # the leading @ is the FASTQ record marker, not part of the instrument name
        elif pair['hk'] in ('scmo', 'scmo_umi'):
            exp.update({'Is': 'NS500413', 'RN': '32', 'Fc': 'H14TKBGXX', 'La': '2', 'Ti': '11101', 'CX': str(pid), 'aa': 'ATCACG', 'aA': 'ATCACG', 'aI': '1', 'LY': lib})
            coord = None
            if pair['hk'] == 'scmo_umi' and not lay['umi']:
                # the name came out of an earlier demultiplexing run and carries that run's UMI; a strategy without a UMI of its own leaves it
                # in place, and it has to come out of the decoder as it went into the first encoder
                exp['RX'], exp['RQ'] = fq.requeued_umi(pid)
                exp['RQ'] = fq.hsq_decode(fq.hsq(exp['RQ']))
                acc.count('roundtrip:umi_from_an_earlier_demultiplexing_run')
        else:
            exp.update({'Is': 'UNK', 'Fc': 'UNK', 'CX': '-1', 'CY': '-1', 'Ti': str(pid), 'LY': lib})
            coord = None
        # whether a strategy performs index correction is its own configuration: aA is only expected when it was encoded
        if 'aA' not in t0:
            exp.pop('aA', None)
        # codec view: every k:v the demultiplexer put in the header comes back unchanged (phred tags as phred characters)
        for tk, tv in t0.items():
            if tk in exp or tk in ('Is',):
                continue
            exp[tk] = fq.hsq_decode(tv) if tk in PHRED_TAGS else tv
        if 'bi' in exp:
            exp['SM'] = f"{lib}_{exp['bi']}"
            acc.count('roundtrip:cell_index_zero', 1 if exp['bi'] == '0' else 0)
        if 'aA' in exp and 'BC' in exp:
            exp['MI'] = exp.get('BC', '') + exp.get('RX', '') + exp['aA']
        if 'SM' in exp:
            exp['RG'] = f"{exp['Fc']}.{exp['La'] if 'La' in exp else t0.get('La')}.{exp['SM']}"
        nontrivial = False
        for mi, a in enumerate(grp):
            for tag, val in exp.items():
                if tag in ('lh', 'lq') and lay['ends'] == 'se' and mi > 0:
                    continue
                acc.count('roundtrip:fields_compared')
                got = a.get_tag(tag) if a.has_tag(tag) else None
                if str(got) != str(val):
                    acc.violate(f'field-not-restored:{tag}', f'{name} lib {lib!r} pair {pid} mate {mi + 1}: {tag}={got!r} expected {val!r}; header {names[mi][:160]}',
                                {'header': names[mi], 'library': lib, 'tag': tag, 'got': str(got), 'expected': str(val), 'reads': rd})
            # no field of ANOTHER read's name may come out of the decoder (state must not leak between reads): a tag that read names of this
            # library can carry, but that is not in THIS read's name, must not be on this read. Tags no read name carries (derived ones such as
            # MI, SM, RG or whatever a later version adds) are the decoder's business.
            allowed = set(t0) | {'MI', 'QM', 'ah', 'SM', 'BK', 'RG', 'bi'}
            for tg, _ in a.get_tags():
                if tg not in allowed and tg in name_vocabulary:
                    acc.violate('tag-not-encoded-in-this-name', f'{name} pair {pid} mate {mi + 1}: tag {tg}={a.get_tag(tg)!r} was never encoded in its read name '
                                                                f'{names[mi][:150]}', {'header': names[mi], 'library': lib, 'tag': tg})
                    break
            if coord is not None and a.query_name != coord:
                acc.violate('read-name-not-restored', f'{name}: read name {a.query_name!r} expected {coord!r}', {'header': names[mi]})
        uq_all = ''.join(cat(rd, lay['umi'])[1] if lay['umi'] else '') + (seg(rd, lay['lh'])[1] if lay['lh'] else '')
        if any(ord(c) - 33 >= 52 for c in uq_all) or max(len(nm) for nm in names) >= 240:
            acc.sigs.add(f"{name}/{lib}/{pid}")
        if example is None:
            example = {'header': names[0][:220], 'decoded': {t: str(grp[0].get_tag(t)) for t in ('SM', 'MI', 'RX', 'RQ', 'BC', 'bi', 'RG') if grp[0].has_tag(t)},
                       'read_name_after': grp[0].query_name}
    # every consumed 'good' pair is either stored+decoded, or was refused loudly somewhere
    silent = n - len(stored) - refused - loud_in_demux
    if case['kind'] == 'length' and silent > 0 and n_written < n and 'Fatal error' not in txt:
        acc.violate('header-dropped-silently', f'{name} lib of {len(lib)} chars: {silent} pairs neither stored nor refused loudly', {'library': lib})
    return {'max_header': max_header, 'example': example}
