"""C17 - blacklist-aware tiling is an exact partition with contained fetch windows.

Monitor: the tuple streams yielded by blacklisted_binning / blacklisted_binning_contigs /
fill_range / bp_chunked are consumed by an invariant checker (exact partition of
region minus blacklist, size bound, window containment).
"""
import os
import itertools
from vlib.common import Acc, rng, Scratch

PROPERTY = 'C17'
LEVEL = 'exploration'
RULE = ('small space enumerated: region start in {0,3}, length 1..Lmax, bin size 1..Bmax, fragment size in {None,0,1,2,5,60}, '
        'every blacklist of <=2 intervals (plus sampled 3-interval ones) with end points in [start-2, end+2]; large random regions '
        '(up to 1e6, up to 12 blacklist intervals, overlapping/adjacent/touching the ends); blacklisted_binning_contigs with a BED file; '
        'fill_range and bp_chunked on random inputs. A case is non-trivial when the blacklist intersects the region or the region '
        'needs more than one bin; distinct = distinct (start,end,bin,fragment,blacklist) tuples.'
        ' Plus regions near / beyond 2^31, BED blacklists with shuffled lines or gzip compression, and a blacklist rewritten in place between two tilings; the intervals of a blacklist are handed over in ascending, descending or shuffled order.')
ASSUMPTIONS = ['blacklist intervals are half-open [start,end) with start<end, as the code documents',
               'fetch windows are only required to be contained and to extend by at most the fragment size (maximality is reported, not demanded)']
MIN_NONTRIVIAL = {'quick': 3000, 'thorough': 100000}
REQUIRED_MONITORS = ['yield:blacklisted_binning', 'yield:blacklisted_binning_window', 'yield:blacklisted_binning_contigs',
                     'yield:fill_range', 'yield:bp_chunked', 'bed:gz', 'bed:shuffled', 'region:near_or_beyond_2^31', 'history:blacklist_file_rewritten_in_place', 'blacklist:caller_order_unsorted', 'bed:extra_columns_or_blank_separated', 'history:one_blacklist_list_two_tilings', 'contigs:names_with_separator_characters']
EXHAUSTIVE = {'quick': False, 'thorough': True}
SHARD_TIMEOUT = {'quick': 600, 'thorough': 7200}


def allowed_segments(S, E, bl):
    """[S,E) minus union of bl -> list of maximal (a,b)"""
    covered = [False] * (E - S)
    for s, e in bl:
        for x in range(max(s, S), min(e, E)):
            covered[x - S] = True
    segs = []
    cur = None
    for i, c in enumerate(covered):
        if not c and cur is None:
            cur = S + i
        if c and cur is not None:
            segs.append((cur, S + i))
            cur = None
    if cur is not None:
        segs.append((cur, E))
    return segs


def allowed_segments_fast(S, E, bl):
    ivs = sorted((max(s, S), min(e, E)) for s, e in bl if min(e, E) > max(s, S))
    segs = []
    cur = S
    for s, e in ivs:
        if s > cur:
            segs.append((cur, s))
        cur = max(cur, e)
    if cur < E:
        segs.append((cur, E))
    return segs


def check_tiling(acc, S, E, B, F, bl, out, label):
    """out: list of tuples as yielded. Returns mech or None"""
    segs = allowed_segments_fast(S, E, bl)
    width = 2 if F is None else 4
    bins = []
    for t in out:
        if len(t) != width:
            return 'wrong-tuple-shape', f'{t}'
        bins.append(t)
    # exact partition: walk the segments
    it = iter(bins)
    pos_idx = 0
    flat = [(t[0], t[1]) for t in bins]
    for i, (bs, be) in enumerate(flat):
        if not (bs < be):
            return 'empty-or-negative-bin', f'bin {(bs, be)}'
        if be - bs > B:
            return 'bin-larger-than-requested', f'bin {(bs, be)} size {be - bs} > {B}'
    # bins must exactly tile segs in order
    expected_cov = segs
    got_cov = []
    for bs, be in flat:
        if got_cov and got_cov[-1][1] == bs:
            got_cov[-1] = (got_cov[-1][0], be)
        else:
            got_cov.append((bs, be))
    if got_cov != expected_cov:
        # classify
        srt = sorted(flat)
        overlap = any(a[1] > b[0] for a, b in zip(srt, srt[1:]))
        total_got = sum(be - bs for bs, be in flat)
        total_exp = sum(b - a for a, b in segs)
        if overlap:
            return 'bins-overlap', f'bins {flat[:8]}'
        inbl = [(bs, be) for bs, be in flat for s, e in bl if max(bs, s) < min(be, e)]
        if inbl:
            return 'bin-touches-blacklist', f'bin {inbl[0]} blacklist {bl}'
        if any(bs < S or be > E for bs, be in flat):
            return 'bin-leaves-region', f'bins {flat[:8]} region {(S, E)}'
        if total_got < total_exp:
            return 'gap-uncovered', f'covered {got_cov} expected {expected_cov}'
        return 'not-a-partition', f'covered {got_cov} expected {expected_cov}'
    if F is not None:
        for (bs, be, fs, fe) in bins:
            acc.count('yield:blacklisted_binning_window')
            if fs > bs or fe < be:
                return 'window-does-not-contain-bin', f'bin {(bs, be)} window {(fs, fe)}'
            if bs - fs > F or fe - be > F:
                return 'window-extends-beyond-fragment-size', f'bin {(bs, be)} window {(fs, fe)} F={F}'
            if fs < S or fe > E:
                return 'window-leaves-region', f'bin {(bs, be)} window {(fs, fe)} region {(S, E)} F={F} B={B}'
            for s, e in bl:
                if max(fs, s) < min(fe, e):
                    return 'window-reaches-into-blacklist', f'bin {(bs, be)} window {(fs, fe)} blacklist {(s, e)} F={F} B={B}'
            seg = [sg for sg in segs if sg[0] <= bs and be <= sg[1]][0]
            if fs == max(bs - F, seg[0]) and fe == min(be + F, seg[1]):
                acc.count('window:maximal')
    return None


def gen_cases(tier, seed):
    cases = []
    if tier == 'quick':
        Lmax, Bmax, frac = 8, 10, 0.04
    else:
        Lmax, Bmax, frac = 8, 10, 1.0
    for S in (0, 3):
        for L in range(1, Lmax + 1):
            for B in range(1, Bmax + 1):
                cases.append({'kind': 'enum', 'S': S, 'L': L, 'B': B, 'frac': frac, 'seed': seed})
    for i in range(32 if tier == 'quick' else 1600):
        cases.append({'kind': 'random', 'i': i, 'seed': seed, 'n': 150 if tier == 'quick' else 600})
    for i in range(16 if tier == 'quick' else 600):
        cases.append({'kind': 'contigs', 'i': i, 'seed': seed})
    for i in range(16 if tier == 'quick' else 64):
        cases.append({'kind': 'aux', 'i': i, 'seed': seed})
    return cases


def run_one(acc, bbc, S, E, B, F, bl):
    acc.evals += 1
    try:
        out = list(bbc.blacklisted_binning(S, E, B, blacklist=list(bl), fragment_size=F))
    except Exception as ex:
        acc.violate('exception:' + type(ex).__name__, f'blacklisted_binning({S},{E},{B},{bl},{F}) raised {ex!r}',
                    {'S': S, 'E': E, 'B': B, 'F': F, 'blacklist': list(bl)})
        return
    acc.count('yield:blacklisted_binning', len(out))
    res = check_tiling(acc, S, E, B, F, bl, out, 'blacklisted_binning')
    if res:
        mech, msg = res
        acc.violate(mech, f'blacklisted_binning(start={S}, end={E}, bin={B}, blacklist={list(bl)}, fragment={F}): {msg}',
                    {'S': S, 'E': E, 'B': B, 'F': F, 'blacklist': list(bl), 'yielded': out[:20]})


def run_case(case):
    from singlecellmultiomics.bamProcessing import bamBinCounts as bbc
    from singlecellmultiomics.utils import binning
    acc = Acc()
    if case['kind'] == 'enum':
        S, L, B = case['S'], case['L'], case['B']
        E = S + L
        r = rng(case['seed'], 'C17', 'enum', S, L, B)
        pts = list(range(S - 2, E + 3))
        ivs = [(a, b) for a, b in itertools.combinations(pts, 2)]
        bls = [()] + [(iv,) for iv in ivs] + [tuple(sorted(p)) for p in itertools.combinations(ivs, 2)]
        triples = [tuple(sorted(r.sample(ivs, 3))) for _ in range(200)]
        nth = 0
        for bl in bls + triples:
            if case['frac'] < 1 and r.random() > case['frac']:
                continue
            if len(bl) > 1:
                # the caller's interval order is free: every second multi-interval blacklist is handed over in descending order
                nth += 1
                if nth % 2:
                    bl = tuple(reversed(bl))
                    acc.count('blacklist:caller_order_unsorted')
            for F in (None, 0, 1, 2, 5, 60):
                run_one(acc, bbc, S, E, B, F, bl)
                if bl and any(max(s, S) < min(e, E) for s, e in bl) or L > B:
                    acc.distinct += 1
        acc.sample = {'enumerated': {'start': S, 'end': E, 'bin': B, 'blacklists': len(bls) + len(triples),
                                     'example_blacklist': list(bls[len(bls) // 2]),
                                     'example_out': list(bbc.blacklisted_binning(S, E, B, blacklist=list(bls[len(bls) // 2]), fragment_size=2))[:6]}}
    elif case['kind'] == 'random':
        r = rng(case['seed'], 'C17', 'random', case['i'])
        for it in range(case['n']):
            S = r.choice([0, 0, r.randint(0, 5000), r.randint(0, 5000), 2 ** 31 - r.randint(1, 3000), 3 * 10 ** 9 + r.randint(0, 1000)])
            if S >= 2 ** 31 - 3000:
                acc.count('region:near_or_beyond_2^31')
            L = r.choice([r.randint(1, 300), r.randint(1, 20000), r.randint(1, 1000000)])
            E = S + L
            B = r.choice([r.randint(1, 50), r.randint(1, 5000), r.randint(1, 2 * L), 250, 1000, 100000])
            F = r.choice([None, 0, 1, r.randint(1, 100), r.randint(1, 3000), 500, B, 2 * B])
            bl = []
            for _ in range(r.choice([0, 1, 1, 2, 3, 5, 12])):
                a = r.randint(S - 50, E + 50)
                w = r.choice([1, r.randint(1, 50), r.randint(1, max(1, L // 3)), r.randint(1, 2 * L)])
                if r.random() < 0.2 and bl:
                    a = r.choice(bl)[1] + r.choice([0, 0, -1, 1])  # adjacent / overlapping by one
                if r.random() < 0.1:
                    a = S - r.choice([0, 1, 5])
                if r.random() < 0.1:
                    a = E - w + r.choice([0, 0, 1])
                bl.append((a, a + w))
            bl = sorted(bl)
            order = it % 3   # caller's order of the intervals: ascending, descending, shuffled
            if order == 1:
                bl = bl[::-1]
            elif order == 2:
                r.shuffle(bl)
            if len(bl) > 1 and bl != sorted(bl):
                acc.count('blacklist:caller_order_unsorted')
            run_one(acc, bbc, S, E, B, F, tuple(bl))
            if any(max(s, S) < min(e, E) for s, e in bl) or L > B:
                acc.sigs.add(f'{S}/{E}/{B}/{F}/{bl}')
            if it % 4 == 0:
                # history: the caller keeps ONE blacklist list and tiles a smaller and then a larger region with it (per-chromosome arm, then the
                # whole chromosome): the second tiling is judged against the intervals the caller put into the list
                shared = list(bl)
                E1 = S + max(1, L // r.choice([2, 3, 4]))
                try:
                    list(bbc.blacklisted_binning(S, E1, B, blacklist=shared, fragment_size=F))
                    out2 = list(bbc.blacklisted_binning(S, E, B, blacklist=shared, fragment_size=F))
                except Exception as ex:
                    acc.violate('exception:' + type(ex).__name__, f'second tiling with the same blacklist list raised {ex!r}', {'S': S, 'E': E, 'E_first': E1, 'B': B, 'F': F, 'blacklist': list(bl)})
                    out2 = None
                acc.count('history:one_blacklist_list_two_tilings')
                if out2 is not None:
                    res = check_tiling(acc, S, E, B, F, tuple(bl), out2, 'blacklisted_binning')
                    if res:
                        acc.violate('second-tiling-with-the-same-list:' + res[0], f'blacklisted_binning({S}, {E}, bin={B}, fragment={F}) after tiling ({S}, {E1}) with the same '
                                                                                f'blacklist list {list(bl)}: {res[1]}', {'S': S, 'E': E, 'E_first': E1, 'B': B, 'F': F, 'blacklist': list(bl)})
        acc.sample = {'random_example': {'start': S, 'end': E, 'bin': B, 'fragment': F, 'blacklist': bl}}
    elif case['kind'] == 'contigs':
        r = rng(case['seed'], 'C17', 'contigs', case['i'])
        with Scratch('c17') as d:
            contigs = [(f'c{j}', r.randint(1, 5000)) for j in range(r.randint(1, 6))]
            if case['i'] % 2 == 1:
                # contig names as references have them: with colons, asterisks, dots, pipes - also names that are numbers
                pool = ['HLA-A*01:01', 'HLA-DRB1*15:01:01:01', 'chrUn_KI270302v1', 'NC_000001.11', 'gi|9626243|ref|NC_001416.1|', '12', 'ERCC-00002']
                r.shuffle(pool)
                contigs = [(pool[j], ln) if j < 3 else (nm, ln) for j, (nm, ln) in enumerate(contigs)]
                acc.count('contigs:names_with_separator_characters')
            bld = {}
            lines = []
            for name, ln in contigs:
                for _ in range(r.choice([0, 1, 2, 4])):
                    a = r.randint(0, ln + 10)       # a BED start is never negative
                    w = r.randint(1, max(2, ln // 2))
                    bld.setdefault(name, []).append((a, a + w))
                    lines.append(f'{name}\t{a}\t{a + w}\n')
            # the order of the lines and the compression of the file are not under the tool's control: grouped by contig, shuffled
            # (concatenated blacklists), plain or gzipped
            bed_form = ['grouped', 'shuffled', 'gz', 'shuffled'][case['i'] % 4]
            if bed_form != 'grouped':
                r.shuffle(lines)
            if case['i'] % 3 == 1:
                # BED lines with further columns (name, score, strand), separated by tabs or blanks, Windows line ends
                def dress(line):
                    f3 = line.split()
                    extra = r.choice([[], ['lowmap'], ['region_x', '0', '+'], ['a b'.replace(' ', '_'), '960']])
                    sep = r.choice(['\t', '\t', ' ', '  '])
                    return sep.join(f3 + extra) + r.choice(['\n', '\n', '\r\n'])
                lines = [dress(x) for x in lines]
                acc.count('bed:extra_columns_or_blank_separated')
            acc.count('bed:' + bed_form)
            bed = os.path.join(d, 'bl.bed' + ('.gz' if bed_form == 'gz' else ''))
            import gzip as _gz
            with (_gz.open(bed, 'wt') if bed_form == 'gz' else open(bed, 'w')) as f:
                f.write(''.join(lines))
            for round_, F in enumerate((None, r.randint(0, 400), r.randint(0, 400))):
                if round_ == 2:
                    # history: the blacklist file is rewritten in place (new intervals, same path) and the genome is tiled again in the same process
                    bld = {}
                    lines = []
                    for name, ln in contigs:
                        for _ in range(r.choice([0, 1, 2, 4])):
                            a = r.randint(0, ln + 10)
                            w = r.randint(1, max(2, ln // 2))
                            bld.setdefault(name, []).append((a, a + w))
                            lines.append(f'{name}\t{a}\t{a + w}\n')
                    with (_gz.open(bed, 'wt') if bed_form == 'gz' else open(bed, 'w')) as f:
                        f.write(''.join(lines))
                    acc.count('history:blacklist_file_rewritten_in_place')
                B = r.randint(1, 800)
                wl = None if r.random() < 0.6 else set(n for n, _ in r.sample(contigs, max(1, len(contigs) // 2)))
                try:
                    out = list(bbc.blacklisted_binning_contigs(contigs, B, F, blacklist_path=bed, contig_whitelist=wl))
                except Exception as ex:
                    acc.violate('exception:contigs:' + type(ex).__name__, f'blacklisted_binning_contigs raised {ex!r} on a well-formed BED blacklist ({bed_form})',
                                {'contigs': contigs, 'B': B, 'F': F, 'bed_form': bed_form, 'bed_lines': lines[:20]})
                    break
                acc.evals += 1
                acc.count('yield:blacklisted_binning_contigs', len(out))
                per = {}
                for t in out:
                    per.setdefault(t[0], []).append(tuple(t[1:]))
                for name, ln in contigs:
                    if wl is not None and name not in wl:
                        if name in per:
                            acc.violate('contig-not-whitelisted-yielded', f'{name} yielded although not in whitelist {wl}', {})
                        continue
                    bl = tuple(sorted(bld.get(name, [])))
                    res = check_tiling(acc, 0, ln, B, F, bl, per.get(name, []), 'contigs')
                    if res:
                        acc.violate(res[0], f'blacklisted_binning_contigs contig {name} len {ln} bin {B} fragment {F} blacklist {bl}: {res[1]}',
                                    {'contig': name, 'length': ln, 'B': B, 'F': F, 'blacklist': list(bl), 'bed_form': bed_form, 'bed_lines': lines[:20], 'yielded': per.get(name, [])[:20]})
                    acc.sigs.add(f'contigs/{name}/{ln}/{B}/{F}/{bl}')
        acc.sample = {'contigs_example': {'contigs': contigs, 'bin': B, 'fragment': F, 'blacklist': {k: v[:3] for k, v in bld.items()}}}
    else:
        r = rng(case['seed'], 'C17', 'aux', case['i'])
        for _ in range(300):
            S = r.randint(0, 50)
            E = S + r.randint(1, 400)
            step = r.randint(1, 450)
            out = list(bbc.fill_range(S, E, step))
            acc.evals += 1
            acc.count('yield:fill_range', len(out))
            res = check_tiling(acc, S, E, step, None, (), out, 'fill_range')
            if res:
                acc.violate('fill_range:' + res[0], f'fill_range({S},{E},{step}): {res[1]}', {'S': S, 'E': E, 'step': step, 'out': out[:20]})
            acc.sigs.add(f'fill/{S}/{E}/{step}')
        for _ in range(100):
            jobs = []
            pos = 0
            for j in range(r.randint(0, 40)):
                w = r.randint(1, 500)
                jobs.append(('chr', pos, pos + w, j))
                pos += w + r.randint(0, 30)
            bp = r.randint(1, 2000)
            chunks = list(binning.bp_chunked(iter(jobs), bp))
            acc.evals += 1
            acc.count('yield:bp_chunked', len(chunks))
            flat = [j for c in chunks for j in c]
            if flat != jobs:
                acc.violate('bp_chunked-content-or-order-changed', f'bp_chunked changed the job list: {len(flat)} vs {len(jobs)}',
                            {'jobs': jobs[:20], 'chunks': chunks[:5], 'bp': bp})
            for c in chunks[:-1]:
                tot = sum(abs(j[2] - j[1]) for j in c)
                if tot < bp or (len(c) > 1 and tot - abs(c[-1][2] - c[-1][1]) >= bp):
                    acc.violate('bp_chunked-chunk-size', f'chunk of {tot} bp for bp_per_job={bp}', {'chunk': c[:10], 'bp': bp})
            if len(jobs) > 1:
                acc.sigs.add(f'chunk/{len(jobs)}/{bp}/{pos}')
        acc.sample = {'aux_example': {'fill_range': [S, E, step, out[:4]], 'bp_chunked': {'jobs': len(jobs), 'bp_per_job': bp, 'chunks': len(chunks)}}}
    return acc
