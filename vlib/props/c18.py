"""C18 - allele lookups agree with the VCF in every loading mode.

Monitor: every getAllelesAt / has_location return value for every (contig, pos, base) of a generated VCF
(plus absent positions and contigs) is recorded per loading mode and access order; oracle (a) differential:
all modes answer identically; (b) truth on clean sites from an independent parse of the VCF text.
"""
import os
import io
import shutil
import contextlib
from vlib.common import Acc, rng, Scratch

PROPERTY = 'C18'
LEVEL = 'exploration'
RULE = ('generated VCFs (1-4 contigs incl. one un-cacheable name, 1-4 samples, phased/unphased genotypes, missing genotypes, multi-base and '
        'multi-allelic sites, monomorphic sites) x sample selections x ignored conversions x phased flag; each configuration is answered by '
        'eager, lazy, use_cache(first run writing), use_cache(second run reading) with both values of the lazyLoad flag, and by a cache '
        'written under a different ignore_conversions setting; all (contig,pos,base) of the VCF +- absent positions and an absent contig are '
        'queried in a random contig order that returns to evicted contigs. Non-trivial = query on a site stored by at least one mode; '
        'distinct = distinct (vcf, configuration, contig, pos, base).'
        ' Plus the empty sample selection, caches written under another sample selection, panels of 18-32 long sample names (cache file name over 255 bytes).')
ASSUMPTIONS = ['pysam VariantFile / tabix are trusted', 'truth is only demanded on clean sites (every called allele of the selected samples is a single base, '
               '>= 2 distinct bases over the selected samples, no ignored conversion); elsewhere answers must be a subset of the carriers',
               'positions >= 0 are queried (position -1 is an internal sentinel)']
MIN_NONTRIVIAL = {'quick': 1500, 'thorough': 100000}
REQUIRED_MONITORS = ['ret:getAllelesAt', 'ret:has_location', 'mode:eager', 'mode:lazy', 'mode:cache_write', 'mode:cache_read',
                     'mode:cache_flag_without_lazy', 'history:cache_from_other_config', 'history:cache_from_other_sample_selection', 'config:empty_sample_selection', 'config:cache_name_over_255_bytes', 'oracle:clean_sites', 'evicted_contig_revisited', 'tagger:runs', 'oracle:DA_compared', 'fault:cache_close_failures', 'query:contig_listed_by_other_variant_files_only', 'config:sample_names_with_blanks']
SHARD_TIMEOUT = {'quick': 600, 'thorough': 3600}


def gen_cases(tier, seed):
    n = 96 if tier == 'quick' else 6000
    cases = [{'i': i, 'seed': seed} for i in range(n)]
    # the allele tag written by the real tagger (-alleles), without cache / writing the cache / reading the cache
    for j in range(8 if tier == 'quick' else 320):
        cases.append({'kind': 'tagger', 'j': j, 'seed': seed})
    return cases


def run_tagger_case(case):
    import pysam
    from vlib.sim import frags as F
    from vlib.sim.bam import write_bam
    from vlib import tagger as T
    acc = Acc()
    r = rng(case['seed'], 'C18', 'tagger', case['j'])
    method = r.choice(['nla', 'chic'])
    contigs = [('chr1', 12000), ('chr2', 7000)][:r.randint(1, 2)]
    gen, recs, truths = F.simulate_library(r, method=method, contigs=contigs, n_cells=2, n_sites=r.randint(3, 10), umis_per_site=(1, 3), copies=(1, 3),
                                           case_id=300 + case['j'], p_clip=0.0, p_invalid=0.0, p_mismatch=0.0, p_umi_neighbour=0.0, umi_len=4)
    if not truths:
        return acc
    # variant sites inside covered regions (away from the first bases of read 1)
    cover = {}
    for rec in recs:
        if rec.get('tid', -1) < 0:
            continue
        name = gen.refs[rec['tid']][0]
        for p in range(rec['pos'] + 6, rec['pos'] + len(rec['seq']) - 6):
            cover.setdefault(name, set()).add(p)
    sites = {}
    for name, ps in cover.items():
        for p in r.sample(sorted(ps), min(len(ps), r.randint(2, 12))):
            refb = gen.get(name)[p]
            if refb not in 'ACGT':
                continue
            sites[(name, p)] = (refb, r.choice([b for b in 'ACGT' if b != refb]))
    # every true molecule belongs to one allele: S1 carries the reference base, S2 the alternative
    mol_allele = {}
    for t in truths.values():
        mol_allele.setdefault(t['key'], r.choice(['S1', 'S2']))
    expect = {}
    for rec in recs:
        rid = F.id_from_name(rec['name'])
        t = truths[rid]
        name = t['contig']
        al = mol_allele[t['key']]
        seq = list(rec['seq'])
        for i in range(len(seq)):
            k = (name, rec['pos'] + i)
            if k in sites:
                seq[i] = sites[k][0] if al == 'S1' else sites[k][1]
                expect.setdefault(t['key'], set()).add(k)
        rec['seq'] = ''.join(seq)
        rec['tags'] = {k: v for k, v in rec['tags'].items() if k not in ('MD', 'NM')}
    with Scratch('c18t') as d:
        vcf = os.path.join(d, 'v.vcf')
        with open(vcf, 'w') as f:
            f.write('##fileformat=VCFv4.2\n')
            for c, ln in contigs:
                f.write(f'##contig=<ID={c},length={ln}>\n')
            f.write('##FORMAT=<ID=GT,Number=1,Type=String,Description="Genotype">\n#CHROM\tPOS\tID\tREF\tALT\tQUAL\tFILTER\tINFO\tFORMAT\tS1\tS2\n')
            for (c, p) in sorted(sites):
                f.write(f'{c}\t{p + 1}\t.\t{sites[(c, p)][0]}\t{sites[(c, p)][1]}\t50\tPASS\t.\tGT\t0|0\t1|1\n')
        bam = write_bam(os.path.join(d, 'in.bam'), gen.refs, recs)
        answers = {}
        for label, extra, vcfdir in (('no_cache', [], 'a'), ('cache_write', ['--use_allele_cache'], 'b'), ('cache_read', ['--use_allele_cache'], 'b')):
            sub = os.path.join(d, vcfdir)
            os.makedirs(sub, exist_ok=True)
            vz = os.path.join(sub, 'v.vcf.gz')
            if not os.path.exists(vz):
                import shutil
                shutil.copy(vcf, os.path.join(sub, 'v.vcf'))
                vz = pysam.tabix_index(os.path.join(sub, 'v.vcf'), preset='vcf', force=True)
            out = os.path.join(d, f'out_{label}.bam')
            exc, txt = T.run_cli([bam, '-o', out, '-method', method, '-umi_hamming_distance', '0', '-alleles', vz] + extra)
            acc.evals += 1
            acc.count('tagger:runs')
            if exc is not None:
                acc.violate('tagger-with-alleles-raised:' + type(exc).__name__, f'{label}: tagger raised {exc!r}; {txt[-300:]}', {'method': method})
                continue
            da = {}
            with pysam.AlignmentFile(out) as f:
                for a in f.fetch(until_eof=True):
                    da[(F.id_from_name(a.query_name), a.is_read2)] = a.get_tag('DA') if a.has_tag('DA') else None
                    acc.count('ret:DA_tags_read')
            answers[label] = da
        ref = answers.get('no_cache')
        for label, da in answers.items():
            if ref is not None and da != ref:
                diff = [(k, ref.get(k), da.get(k)) for k in set(ref) | set(da) if ref.get(k) != da.get(k)]
                acc.violate('allele-tag-depends-on-cache-mode', f'{label}: DA tags differ from the uncached run for {len(diff)} reads, e.g. {diff[:3]}', {'method': method})
        if ref is not None:
            for (rid, r2), v in ref.items():
                t = truths[rid]
                exp = mol_allele[t['key']] if expect.get(t['key']) else None
                acc.count('oracle:DA_compared')
                if v != exp:
                    acc.violate('allele-tag-wrong', f'read {rid}: DA={v} expected {exp} (molecule {t["key"]} covers {len(expect.get(t["key"], ()))} variant sites)',
                                {'method': method, 'sites': [(k, sites[k]) for k in sorted(expect.get(t['key'], ()))][:6]})
                    break
            acc.sigs.update(f"tagger/{case['j']}/{k}" for k in list(expect)[:40])
        acc.sample = {'tagger': {'method': method, 'variant_sites': len(sites), 'molecules': len(mol_allele), 'molecules_covering_a_site': len(expect)}}
    return acc


BLANK = [0]


def gen_vcf(r, path, long_panel=False):
    contigs = [f'chr{j + 1}' for j in range(r.randint(1, 3))]
    if r.random() < 0.4:
        contigs.append(r.choice(['chrUn_KI270302v1', 'chr1_KI270706v1_random', 'ERCC-00002', 'HLA-A*01:01:01:01', 'HLA-B*07:02', 'HLA-A*01:01:01:01']))
    samples = [f'S{j}' for j in range(r.randint(1, 4))]
    if r.random() < 0.3:
        # sample names as people write them: with a blank (the VCF header line is tab separated, so this is legal)
        samples = [f'{nm} {r.choice(["A", "EiJ", "rep 2"])}' if r.random() < 0.7 else nm for nm in samples]
        BLANK[0] += 1
    if long_panel:
        # a panel of many strains with descriptive names: the name of the cache file (contig + selected samples) grows past the limit of the
        # file system, the cache cannot be written - the answers must not change
        samples = [f'strain_{j:02d}_' + ''.join(r.choice('ABCDEFGHJK') for _ in range(r.randint(8, 14))) for j in range(r.randint(18, 32))]
    rows = []
    for c in contigs:
        pos = 0
        for _ in range(r.randint(0, 25)):
            pos += r.randint(1, 30)
            ref = r.choice('ACGT') if r.random() < 0.9 else r.choice(['AC', 'GTT'])
            nalt = r.choice([1, 1, 1, 2])
            alts = []
            while len(alts) < nalt:
                a = r.choice('ACGT') if r.random() < 0.9 else r.choice(['AT', 'CGG'])
                if a != ref and a not in alts:
                    alts.append(a)
            gts = []
            for s in samples:
                x_ = r.random()
                if x_ < 0.1:
                    gts.append('./.')
                elif x_ < 0.18:
                    # half-missing call: one haplotype is not called, the other one is (either order)
                    a_ = r.randint(0, nalt)
                    sep_ = r.choice('|/')
                    gts.append(f'.{sep_}{a_}' if r.random() < 0.5 else f'{a_}{sep_}.')
                else:
                    a1, a2 = r.randint(0, nalt), r.randint(0, nalt)
                    if r.random() < 0.5:
                        a2 = a1
                    gts.append(f'{a1}{r.choice("|/")}{a2}')
            rows.append((c, pos, ref, alts, gts))
    with open(path, 'w') as f:
        f.write('##fileformat=VCFv4.2\n')
        for c in contigs:
            f.write(f'##contig=<ID={c},length=100000>\n')
        f.write('##FORMAT=<ID=GT,Number=1,Type=String,Description="Genotype">\n')
        f.write('#CHROM\tPOS\tID\tREF\tALT\tQUAL\tFILTER\tINFO\tFORMAT\t' + '\t'.join(samples) + '\n')
        for c, pos, ref, alts, gts in rows:
            f.write(f'{c}\t{pos}\t.\t{ref}\t{",".join(alts)}\t50\tPASS\t.\tGT\t' + '\t'.join(gts) + '\n')
    return contigs, samples, rows


def truth_for(rows, samples, select, ignore, phased):
    """-> dict (contig,pos0) -> dict(clean=bool, carriers={base:set(samples)}, nothing=bool)"""
    out = {}
    sel = [s for s in samples if select is None or s in select]
    for c, pos, ref, alts, gts in rows:
        alleles = [ref] + alts
        if not phased:
            clean = all(len(a) == 1 for a in alleles)
            carriers = {}
            if clean:
                for name, a in zip('UVWXYZ', alleles):
                    carriers.setdefault(a, set()).add(name)
            ign = clean and ignore is not None and any((ref, b) in ignore for b in carriers)
            out[(c, pos - 1)] = {'clean': clean and not ign, 'carriers': carriers if not ign else {}, 'nothing': (not clean) or ign}
            continue
        carriers = {}
        missing = False
        half_missing = False
        multibase = False
        for s, gt in zip(samples, gts):
            if s not in sel:
                continue
            if gt == './.':
                missing = True
                continue
            for tok in gt.replace('|', '/').split('/'):
                if tok == '.':
                    half_missing = True      # the called haplotype still counts
                    continue
                a = alleles[int(tok)]
                if len(a) == 1:
                    carriers.setdefault(a, set()).add(s)
                else:
                    multibase = True
        ign = ignore is not None and any((ref, b) in ignore for b in carriers)
        # a selected sample without a call at the site does not make the site uninformative as long as the called selected samples show
        # two distinct single bases: the carriers are still exactly the samples whose genotype contains the base
        clean = (not multibase) and len(carriers) >= 2 and not ign and len(sel) > 0
        # (with a half-missing call only the clean sites are decided: what a monomorphic / multi-base / ignored site with an uncalled
        # haplotype should answer is left open)
        nothing = (ign or (multibase and not missing) or (not missing and len(carriers) < 2)) and not half_missing
        out[(c, pos - 1)] = {'clean': clean, 'carriers': carriers, 'nothing': nothing}
    return out


def run_case(case):
    if case.get('kind') == 'tagger':
        return run_tagger_case(case)
    import pysam
    from singlecellmultiomics.alleleTools import AlleleResolver
    acc = Acc()
    r = rng(case['seed'], 'C18', case['i'])
    with Scratch('c18') as d:
        plain = os.path.join(d, 'v.vcf')
        BLANK[0] = 0
        contigs, samples, rows = gen_vcf(r, plain, long_panel=(case['i'] % 7 == 3))
        acc.count('config:sample_names_with_blanks', BLANK[0])
        select = None if r.random() < 0.5 else sorted(r.sample(samples, r.randint(1, len(samples))))
        if r.random() < 0.12:
            select = []     # the empty selection: nothing can be returned, in any mode
            acc.count('config:empty_sample_selection')
        if len(samples) > 10 and select != []:
            select = None if r.random() < 0.15 else sorted(r.sample(samples, r.randint(len(samples) - 3, len(samples))))
        acc.count('config:cache_name_over_255_bytes', 1 if (select is not None and len('-'.join(select)) > 250) else 0)
        ignore = None if r.random() < 0.5 else set(r.sample([(a, b) for a in 'ACGT' for b in 'ACGT' if a != b], r.randint(1, 3)))
        phased = r.random() < 0.8
        if not phased:
            select = None
        cfg = {'select_samples': select, 'ignore_conversions': sorted(ignore) if ignore else None, 'phased': phased}

        def fresh_copy(tag):
            sub = os.path.join(d, tag)
            os.makedirs(sub)
            p = os.path.join(sub, 'v.vcf')
            shutil.copy(plain, p)
            gz = pysam.tabix_index(p, preset='vcf', force=True)
            return gz
        # queries
        sites = sorted(set((c, p - 1) for c, p, *_ in rows))
        qs = []
        for (c, p0) in sites:
            for b in 'ACGTN':
                qs.append((c, p0, b))
            qs.append((c, p0 + 1, r.choice('ACGT')))
        for c in contigs:
            qs.append((c, r.randint(0, 900), r.choice('ACGT')))
        qs.append(('chrAbsent', 5, 'A'))
        # reads of contigs that THIS variant file does not list (but another run's file in the same process may): nothing to answer here
        for other in ('chr1', 'chr2', 'chr3', 'chr4'):
            if other not in contigs:
                qs.append((other, r.randint(0, 60), r.choice('ACGT')))
                acc.count('query:contig_listed_by_other_variant_files_only')
        # contig access order with returns to evicted contigs
        by_contig = {}
        for q in qs:
            by_contig.setdefault(q[0], []).append(q)
        order = []
        visit = list(by_contig)
        r.shuffle(visit)
        revisit = 0
        for c in visit:
            items = by_contig[c]
            r.shuffle(items)
            half = len(items) // 2
            order.extend(items[:half])
        for c in reversed(visit):
            items = by_contig[c]
            order.extend(items[len(items) // 2:])
            revisit += 1
        if len(visit) > 1:
            acc.count('evicted_contig_revisited', revisit)
        else:
            acc.count('evicted_contig_revisited', 0)

        hash_first = {q: r.random() < 0.5 for q in order}
        hash_first[('chrAbsent', 5, 'A')] = True

        def kwargs(extra):
            kw = dict(phased=phased, select_samples=select, ignore_conversions=ignore)
            kw.update(extra)
            return kw

        def ask(resolver):
            ans = {}
            for (c, p0, b) in order:
                with contextlib.redirect_stdout(io.StringIO()):
                    # which of the two entry points touches a contig first is part of the access order
                    if hash_first[(c, p0, b)]:
                        h = resolver.has_location(c, p0)
                        a = resolver.getAllelesAt(c, p0, b)
                    else:
                        a = resolver.getAllelesAt(c, p0, b)
                        h = resolver.has_location(c, p0)
                acc.count('ret:getAllelesAt')
                acc.count('ret:has_location')
                ans[(c, p0, b)] = (frozenset(a) if a else frozenset(), bool(h))
            return ans
        answers = {}
        errors = {}

        def run_mode(label, build):
            try:
                with contextlib.redirect_stdout(io.StringIO()):
                    res = build()
                answers[label] = ask(res)
                acc.count('mode:' + label.split('/')[0])
            except Exception as ex:
                errors[label] = repr(ex)
        gz = fresh_copy('eager')
        run_mode('eager', lambda: AlleleResolver(gz, **kwargs(dict(lazyLoad=False, use_cache=False))))
        gz2 = fresh_copy('lazy')
        run_mode('lazy', lambda: AlleleResolver(gz2, **kwargs(dict(lazyLoad=True, use_cache=False))))
        gz3 = fresh_copy('cacheL')
        run_mode('cache_write/lazy', lambda: AlleleResolver(gz3, **kwargs(dict(lazyLoad=True, use_cache=True))))
        run_mode('cache_read/lazy', lambda: AlleleResolver(gz3, **kwargs(dict(lazyLoad=True, use_cache=True))))
        gz4 = fresh_copy('cacheE')
        run_mode('cache_flag_without_lazy/write', lambda: AlleleResolver(gz4, **kwargs(dict(lazyLoad=False, use_cache=True))))
        run_mode('cache_flag_without_lazy/read', lambda: AlleleResolver(gz4, **kwargs(dict(lazyLoad=False, use_cache=True))))
        # history: the cache was written by an earlier run with a different ignore_conversions setting
        gz5 = fresh_copy('cacheH')
        other_ignore = None if ignore else {('C', 'T'), ('G', 'A')}
        other_select = select
        if phased and r.random() < 0.6:
            # ... or with another sample selection (all samples / none / a different subset)
            other_select = r.choice([x for x in (None, [], samples[:1], samples[-1:], sorted(samples)) if x != select])
            if r.random() < 0.5:
                other_ignore = ignore
            acc.count('history:cache_from_other_sample_selection')
        try:
            with contextlib.redirect_stdout(io.StringIO()):
                pre = AlleleResolver(gz5, phased=phased, select_samples=other_select, ignore_conversions=other_ignore, lazyLoad=True, use_cache=True)
                for c in contigs:
                    pre.getAllelesAt(c, 0, 'A')
        except Exception as ex:
            errors['history-prefill'] = repr(ex)
        run_mode('history:cache_from_other_config', lambda: AlleleResolver(gz5, **kwargs(dict(lazyLoad=True, use_cache=True))))
        if 'history:cache_from_other_config' in answers:
            acc.count('history:cache_from_other_config')
        # fault history: the run that writes the cache hits "disk full" when the cache file is flushed (close() raises after a partial write);
        # later runs must still answer like eager loading
        gz6 = fresh_copy('cacheF')
        import builtins
        fired = [0]
        real_open = builtins.open
        cache_root = os.path.abspath(os.path.dirname(gz6)) + os.sep

        def faulty_open(file, mode='r', *a, **k):
            # every file written below the directory of this VCF copy (the cache lives there) loses its second half when it is closed, and the
            # close fails with ENOSPC - whichever way the writer opens it (gzip.open, GzipFile, open): all of them end in builtins.open
            f = real_open(file, mode, *a, **k)
            if not (isinstance(file, (str, bytes, os.PathLike)) and os.path.abspath(os.fsdecode(file)).startswith(cache_root) and ('w' in mode or 'a' in mode or 'x' in mode)):
                return f

            class H:
                done = False

                def __getattr__(s_, name):
                    return getattr(f, name)

                def __enter__(s_):
                    return s_

                def __exit__(s_, *exc):
                    s_.close()
                    return False

                def close(s_):
                    if s_.done:
                        return
                    s_.done = True
                    f.flush()
                    size = f.tell()
                    f.truncate(max(1, size // 2))
                    f.close()
                    fired[0] += 1
                    raise OSError(28, 'No space left on device (injected)')
            return H()
        builtins.open = faulty_open
        try:
            run_mode('cache_write_fault/run1', lambda: AlleleResolver(gz6, **kwargs(dict(lazyLoad=True, use_cache=True))))
        finally:
            builtins.open = real_open
        acc.count('fault:cache_close_failures', fired[0])
        run_mode('cache_write_fault/run2', lambda: AlleleResolver(gz6, **kwargs(dict(lazyLoad=True, use_cache=True))))
        wit = {'config': cfg, 'vcf_rows': rows[:40], 'samples': samples, 'contigs': contigs}
        for label, e in errors.items():
            acc.violate('mode-raised:' + label.split('/')[0], f'{label} raised {e} ({cfg})', wit)
        truth = truth_for(rows, samples, select, ignore, phased)
        ref = answers.get('eager')
        stored_any = set()
        for label, ans in answers.items():
            for q, (a, h) in ans.items():
                if a:
                    stored_any.add(q)
        # (a) differential
        for label, ans in answers.items():
            if label == 'eager' or ref is None:
                continue
            for q in order:
                acc.evals += 1
                if ans[q][0] != ref[q][0]:
                    if not ans[q][0] and label.startswith('cache_flag_without_lazy'):
                        mech = 'use_cache-without-lazyLoad-never-loads'
                    elif label.startswith('history'):
                        mech = 'cache-reused-across-configurations'
                    elif label.startswith('cache_write_fault'):
                        mech = 'truncated-cache-file-served-after-failed-write'
                    else:
                        mech = 'modes-disagree:' + label.split('/')[0]
                    acc.violate(mech, f'getAllelesAt{q}: {label} -> {sorted(ans[q][0])} but eager -> {sorted(ref[q][0])} ({cfg})', dict(wit, query=q, mode=label))
                if ans[q][1] != ref[q][1]:
                    mech = 'has_location-true-for-absent-contig' if q[0] not in contigs else (
                        'use_cache-without-lazyLoad-never-loads' if label.startswith('cache_flag_without_lazy') else
                        'cache-reused-across-configurations' if label.startswith('history') else 'has_location-modes-disagree:' + label.split('/')[0])
                    acc.violate(mech, f'has_location{q[:2]}: {label} -> {ans[q][1]} but eager -> {ref[q][1]} ({cfg})', dict(wit, query=q, mode=label))
        # (b) truth
        if ref is not None:
            for q in order:
                c, p0, b = q
                t = truth.get((c, p0))
                got = ref[q][0]
                acc.evals += 1
                if t is None:
                    if got:
                        acc.violate('answer-for-absent-site', f'eager getAllelesAt{q} -> {sorted(got)} but the VCF has no such site', dict(wit, query=q))
                    continue
                carriers = t['carriers'].get(b, set())
                if t['clean']:
                    acc.count('oracle:clean_sites')
                    if got != frozenset(carriers):
                        acc.violate('wrong-samples-on-clean-site', f'eager getAllelesAt{q} -> {sorted(got)} expected {sorted(carriers)} ({cfg})', dict(wit, query=q))
                elif t['nothing']:
                    if got:
                        acc.violate('answer-on-uninformative-or-ignored-site', f'eager getAllelesAt{q} -> {sorted(got)} but the site is uninformative / ignored ({cfg})', dict(wit, query=q))
                else:
                    if not got <= frozenset(carriers):
                        acc.violate('non-carrier-reported', f'eager getAllelesAt{q} -> {sorted(got)} not a subset of carriers {sorted(carriers)} ({cfg})', dict(wit, query=q))
                if q in stored_any:
                    acc.sigs.add(f"{case['i']}/{q}")
        acc.sample = {'config': cfg, 'contigs': contigs, 'samples': samples, 'sites': len(sites), 'queries': len(order), 'modes': sorted(answers),
                      'first_rows': rows[:3]}
    return acc
