"""C18 - allele lookups agree with the VCF in every loading mode.

Monitor: every getAllelesAt / has_location return value for every (contig, pos, base) of a generated VCF
(plus absent positions and contigs) is recorded per loading mode and access order; oracle (a) differential:
all modes answer identically; (b) truth on clean sites from an independent parse of the VCF text.
"""
import os
import io
import shutil
import contextlib
from vlib.common import Acc, rng, Scratch

PROPERTY = 'C18'
LEVEL = 'exploration'
RULE = ('generated VCFs (1-4 contigs incl. one un-cacheable name, 1-4 samples, phased/unphased genotypes, missing genotypes, multi-base and '
        'multi-allelic sites, monomorphic sites) x sample selections x ignored conversions x phased flag; each configuration is answered by '
        'eager, lazy, use_cache(first run writing), use_cache(second run reading) with both values of the lazyLoad flag, and by a cache '
        'written under a different ignore_conversions setting; all (contig,pos,base) of the VCF +- absent positions and an absent contig are '
        'queried in a random contig order that returns to evicted contigs. Non-trivial = query on a site stored by at least one mode; '
        'distinct = distinct (vcf, configuration, contig, pos, base).')
ASSUMPTIONS = ['pysam VariantFile / tabix are trusted', 'truth is only demanded on clean sites (every selected sample has a single-base, non-missing genotype, '
               '>= 2 distinct bases over the selected samples, no ignored conversion); elsewhere answers must be a subset of the carriers',
               'positions >= 0 are queried (position -1 is an internal sentinel)']
MIN_NONTRIVIAL = {'quick': 2000, 'thorough': 30000}
REQUIRED_MONITORS = ['ret:getAllelesAt', 'ret:has_location', 'mode:eager', 'mode:lazy', 'mode:cache_write', 'mode:cache_read',
                     'mode:cache_flag_without_lazy', 'history:cache_from_other_config', 'oracle:clean_sites', 'evicted_contig_revisited']
SHARD_TIMEOUT = {'quick': 600, 'thorough': 3600}


def gen_cases(tier, seed):
    n = 96 if tier == 'quick' else 800
    return [{'i': i, 'seed': seed} for i in range(n)]


def gen_vcf(r, path):
    contigs = [f'chr{j + 1}' for j in range(r.randint(1, 3))]
    if r.random() < 0.4:
        contigs.append(r.choice(['chrUn_KI270302v1', 'chr1_KI270706v1_random', 'ERCC-00002']))
    samples = [f'S{j}' for j in range(r.randint(1, 4))]
    rows = []
    for c in contigs:
        pos = 0
        for _ in range(r.randint(0, 25)):
            pos += r.randint(1, 30)
            ref = r.choice('ACGT') if r.random() < 0.9 else r.choice(['AC', 'GTT'])
            nalt = r.choice([1, 1, 1, 2])
            alts = []
            while len(alts) < nalt:
                a = r.choice('ACGT') if r.random() < 0.9 else r.choice(['AT', 'CGG'])
                if a != ref and a not in alts:
                    alts.append(a)
            gts = []
            for s in samples:
                if r.random() < 0.12:
                    gts.append('./.')
                else:
                    a1, a2 = r.randint(0, nalt), r.randint(0, nalt)
                    if r.random() < 0.5:
                        a2 = a1
                    gts.append(f'{a1}{r.choice("|/")}{a2}')
            rows.append((c, pos, ref, alts, gts))
    with open(path, 'w') as f:
        f.write('##fileformat=VCFv4.2\n')
        for c in contigs:
            f.write(f'##contig=<ID={c},length=100000>\n')
        f.write('##FORMAT=<ID=GT,Number=1,Type=String,Description="Genotype">\n')
        f.write('#CHROM\tPOS\tID\tREF\tALT\tQUAL\tFILTER\tINFO\tFORMAT\t' + '\t'.join(samples) + '\n')
        for c, pos, ref, alts, gts in rows:
            f.write(f'{c}\t{pos}\t.\t{ref}\t{",".join(alts)}\t50\tPASS\t.\tGT\t' + '\t'.join(gts) + '\n')
    return contigs, samples, rows


def truth_for(rows, samples, select, ignore, phased):
    """-> dict (contig,pos0) -> dict(clean=bool, carriers={base:set(samples)}, nothing=bool)"""
    out = {}
    sel = [s for s in samples if select is None or s in select]
    for c, pos, ref, alts, gts in rows:
        alleles = [ref] + alts
        if not phased:
            clean = all(len(a) == 1 for a in alleles)
            carriers = {}
            if clean:
                for name, a in zip('UVWXYZ', alleles):
                    carriers.setdefault(a, set()).add(name)
            ign = clean and ignore is not None and any((ref, b) in ignore for b in carriers)
            out[(c, pos - 1)] = {'clean': clean and not ign, 'carriers': carriers if not ign else {}, 'nothing': (not clean) or ign}
            continue
        carriers = {}
        missing = False
        multibase = False
        for s, gt in zip(samples, gts):
            if s not in sel:
                continue
            if gt == './.':
                missing = True
                continue
            for tok in gt.replace('|', '/').split('/'):
                a = alleles[int(tok)]
                if len(a) == 1:
                    carriers.setdefault(a, set()).add(s)
                else:
                    multibase = True
        ign = ignore is not None and any((ref, b) in ignore for b in carriers)
        clean = (not missing) and (not multibase) and len(carriers) >= 2 and not ign and len(sel) > 0
        nothing = ign or (multibase and not missing) or (not missing and len(carriers) < 2)
        out[(c, pos - 1)] = {'clean': clean, 'carriers': carriers, 'nothing': nothing}
    return out


def run_case(case):
    import pysam
    from singlecellmultiomics.alleleTools import AlleleResolver
    acc = Acc()
    r = rng(case['seed'], 'C18', case['i'])
    with Scratch('c18') as d:
        plain = os.path.join(d, 'v.vcf')
        contigs, samples, rows = gen_vcf(r, plain)
        select = None if r.random() < 0.5 else sorted(r.sample(samples, r.randint(1, len(samples))))
        ignore = None if r.random() < 0.5 else set(r.sample([(a, b) for a in 'ACGT' for b in 'ACGT' if a != b], r.randint(1, 3)))
        phased = r.random() < 0.8
        if not phased:
            select = None
        cfg = {'select_samples': select, 'ignore_conversions': sorted(ignore) if ignore else None, 'phased': phased}

        def fresh_copy(tag):
            sub = os.path.join(d, tag)
            os.makedirs(sub)
            p = os.path.join(sub, 'v.vcf')
            shutil.copy(plain, p)
            gz = pysam.tabix_index(p, preset='vcf', force=True)
            return gz
        # queries
        sites = sorted(set((c, p - 1) for c, p, *_ in rows))
        qs = []
        for (c, p0) in sites:
            for b in 'ACGTN':
                qs.append((c, p0, b))
            qs.append((c, p0 + 1, r.choice('ACGT')))
        for c in contigs:
            qs.append((c, r.randint(0, 900), r.choice('ACGT')))
        qs.append(('chrAbsent', 5, 'A'))
        # contig access order with returns to evicted contigs
        by_contig = {}
        for q in qs:
            by_contig.setdefault(q[0], []).append(q)
        order = []
        visit = list(by_contig)
        r.shuffle(visit)
        revisit = 0
        for c in visit:
            items = by_contig[c]
            r.shuffle(items)
            half = len(items) // 2
            order.extend(items[:half])
        for c in reversed(visit):
            items = by_contig[c]
            order.extend(items[len(items) // 2:])
            revisit += 1
        if len(visit) > 1:
            acc.count('evicted_contig_revisited', revisit)
        else:
            acc.count('evicted_contig_revisited', 0)

        hash_first = {q: r.random() < 0.5 for q in order}
        hash_first[('chrAbsent', 5, 'A')] = True

        def kwargs(extra):
            kw = dict(phased=phased, select_samples=select, ignore_conversions=ignore)
            kw.update(extra)
            return kw

        def ask(resolver):
            ans = {}
            for (c, p0, b) in order:
                with contextlib.redirect_stdout(io.StringIO()):
                    # which of the two entry points touches a contig first is part of the access order
                    if hash_first[(c, p0, b)]:
                        h = resolver.has_location(c, p0)
                        a = resolver.getAllelesAt(c, p0, b)
                    else:
                        a = resolver.getAllelesAt(c, p0, b)
                        h = resolver.has_location(c, p0)
                acc.count('ret:getAllelesAt')
                acc.count('ret:has_location')
                ans[(c, p0, b)] = (frozenset(a) if a else frozenset(), bool(h))
            return ans
        answers = {}
        errors = {}

        def run_mode(label, build):
            try:
                with contextlib.redirect_stdout(io.StringIO()):
                    res = build()
                answers[label] = ask(res)
                acc.count('mode:' + label.split('/')[0])
            except Exception as ex:
                errors[label] = repr(ex)
        gz = fresh_copy('eager')
        run_mode('eager', lambda: AlleleResolver(gz, **kwargs(dict(lazyLoad=False, use_cache=False))))
        gz2 = fresh_copy('lazy')
        run_mode('lazy', lambda: AlleleResolver(gz2, **kwargs(dict(lazyLoad=True, use_cache=False))))
        gz3 = fresh_copy('cacheL')
        run_mode('cache_write/lazy', lambda: AlleleResolver(gz3, **kwargs(dict(lazyLoad=True, use_cache=True))))
        run_mode('cache_read/lazy', lambda: AlleleResolver(gz3, **kwargs(dict(lazyLoad=True, use_cache=True))))
        gz4 = fresh_copy('cacheE')
        run_mode('cache_flag_without_lazy/write', lambda: AlleleResolver(gz4, **kwargs(dict(lazyLoad=False, use_cache=True))))
        run_mode('cache_flag_without_lazy/read', lambda: AlleleResolver(gz4, **kwargs(dict(lazyLoad=False, use_cache=True))))
        # history: the cache was written by an earlier run with a different ignore_conversions setting
        gz5 = fresh_copy('cacheH')
        other_ignore = None if ignore else {('C', 'T'), ('G', 'A')}
        try:
            with contextlib.redirect_stdout(io.StringIO()):
                pre = AlleleResolver(gz5, phased=phased, select_samples=select, ignore_conversions=other_ignore, lazyLoad=True, use_cache=True)
                for c in contigs:
                    pre.getAllelesAt(c, 0, 'A')
        except Exception as ex:
            errors['history-prefill'] = repr(ex)
        run_mode('history:cache_from_other_config', lambda: AlleleResolver(gz5, **kwargs(dict(lazyLoad=True, use_cache=True))))
        if 'history:cache_from_other_config' in answers:
            acc.count('history:cache_from_other_config')
        wit = {'config': cfg, 'vcf_rows': rows[:40], 'samples': samples, 'contigs': contigs}
        for label, e in errors.items():
            acc.violate('mode-raised:' + label.split('/')[0], f'{label} raised {e} ({cfg})', wit)
        truth = truth_for(rows, samples, select, ignore, phased)
        ref = answers.get('eager')
        stored_any = set()
        for label, ans in answers.items():
            for q, (a, h) in ans.items():
                if a:
                    stored_any.add(q)
        # (a) differential
        for label, ans in answers.items():
            if label == 'eager' or ref is None:
                continue
            for q in order:
                acc.evals += 1
                if ans[q][0] != ref[q][0]:
                    if not ans[q][0] and label.startswith('cache_flag_without_lazy'):
                        mech = 'use_cache-without-lazyLoad-never-loads'
                    elif label.startswith('history'):
                        mech = 'cache-reused-across-configurations'
                    else:
                        mech = 'modes-disagree:' + label.split('/')[0]
                    acc.violate(mech, f'getAllelesAt{q}: {label} -> {sorted(ans[q][0])} but eager -> {sorted(ref[q][0])} ({cfg})', dict(wit, query=q, mode=label))
                if ans[q][1] != ref[q][1]:
                    mech = 'has_location-true-for-absent-contig' if q[0] == 'chrAbsent' else (
                        'use_cache-without-lazyLoad-never-loads' if label.startswith('cache_flag_without_lazy') else
                        'cache-reused-across-configurations' if label.startswith('history') else 'has_location-modes-disagree:' + label.split('/')[0])
                    acc.violate(mech, f'has_location{q[:2]}: {label} -> {ans[q][1]} but eager -> {ref[q][1]} ({cfg})', dict(wit, query=q, mode=label))
        # (b) truth
        if ref is not None:
            for q in order:
                c, p0, b = q
                t = truth.get((c, p0))
                got = ref[q][0]
                acc.evals += 1
                if t is None:
                    if got:
                        acc.violate('answer-for-absent-site', f'eager getAllelesAt{q} -> {sorted(got)} but the VCF has no such site', dict(wit, query=q))
                    continue
                carriers = t['carriers'].get(b, set())
                if t['clean']:
                    acc.count('oracle:clean_sites')
                    if got != frozenset(carriers):
                        acc.violate('wrong-samples-on-clean-site', f'eager getAllelesAt{q} -> {sorted(got)} expected {sorted(carriers)} ({cfg})', dict(wit, query=q))
                elif t['nothing']:
                    if got:
                        acc.violate('answer-on-uninformative-or-ignored-site', f'eager getAllelesAt{q} -> {sorted(got)} but the site is uninformative / ignored ({cfg})', dict(wit, query=q))
                else:
                    if not got <= frozenset(carriers):
                        acc.violate('non-carrier-reported', f'eager getAllelesAt{q} -> {sorted(got)} not a subset of carriers {sorted(carriers)} ({cfg})', dict(wit, query=q))
                if q in stored_any:
                    acc.sigs.add(f"{case['i']}/{q}")
        acc.sample = {'config': cfg, 'contigs': contigs, 'samples': samples, 'sites': len(sites), 'queries': len(order), 'modes': sorted(answers),
                      'first_rows': rows[:3]}
    return acc
