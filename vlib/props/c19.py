"""C19 - per-cell file splitting loses no record under handle limits and open failures.

Monitor: a fault-injecting stand-in replaces gzip.open / open inside the handlelimiter module. It
tracks live descriptors and fails opens according to a fault plan (EMFILE above k live handles,
transient failure of the n-th attempt, permanent failure of one path). Every write() call is recorded
as the intended history; afterwards the decompressed files are compared with it.
"""
import os
import sys
import gzip
import errno
import json
import builtins
import itertools
import subprocess
from vlib.common import Acc, rng, Scratch, PY, VERIF

PROPERTY = 'C19'
LEVEL = 'fault_enumeration'
RULE = ('fault enumeration: write sequences of <=12 writes over <=4 files x maxHandles 1..3 x pruneEvery 1..4 x method gzip/plain, with '
        'EVERY placement of one and two transient open() failures over the open-attempt trace, every EMFILE threshold k=1..4 and a '
        'permanent failure of each path; random sequences over up to 200 files with maxHandles 1..64, pruneEvery 1..50 and random fault plans; '
        'a real RLIMIT_NOFILE=40 run of HandleLimiter and FastqHandle(single_cell) in a subprocess; bamSplitByTag with -max_handles 1..5 '
        '(conservation only). A case is non-trivial when at least one injected fault fired or a handle was pruned and re-opened for append; '
        'distinct = distinct (sequence, settings, fault plan).'
        ' Plus stale files of an earlier run (half of them written by an earlier HandleLimiter of the same process) and open failures reported as EMFILE / ENFILE / EIO / EINTR / ENOMEM / EAGAIN / EACCES / ENOSPC / without errno.')
ASSUMPTIONS = ['faults are injected at the open() boundary of the handlelimiter module only; write()/close() of an open handle do not fail',
               'a write() may raise only if an open failed while no other handle of the limiter was live; data of such a write may be absent',
               'gzip and the file system are trusted']
MIN_NONTRIVIAL = {'quick': 400, 'thorough': 20000}
REQUIRED_MONITORS = ['hist:records_with_non_ascii_text', 'inj:open_attempts', 'inj:faults_fired', 'hist:writes', 'oracle:files_compared', 'inj:emfile_fired',
                     'inj:transient_fired', 'inj:permanent_fired', 'reopen_append', 'rlimit:real_emfile_seen', 'split:bams_compared', 'inj:errno:emfile:ENFILE', 'inj:errno:transient:EIO', 'inj:errno:transient:None', 'hist:stale_files_present', 'hist:closed_in_between_and_used_again', 'paths:bare_file_names', 'hist:records_of_several_kb']
EXHAUSTIVE = {'quick': False, 'thorough': True}
SHARD_TIMEOUT = {'quick': 600, 'thorough': 7200}


class Injector:
    def __init__(self, plan):
        self.plan = plan          # dict: emfile_k, transient (set of attempt numbers), permanent (path)
        self.live = 0
        self.attempt = 0
        self.fired = []           # (attempt, kind, path, live_before)
        self.opens = []           # (attempt, path, mode, ok)
        self.max_live = 0
        self.errnos_used = set()

    def _maybe_fail(self, path, mode):
        n = self.attempt
        self.attempt += 1
        kind = None
        if self.plan.get('permanent') == path:
            kind = 'permanent'
        elif n in self.plan.get('transient', ()):
            kind = 'transient'
        elif self.plan.get('emfile_k') is not None and self.live >= self.plan['emfile_k']:
            kind = 'emfile'
        if kind:
            self.fired.append((n, kind, path, self.live))
            self.opens.append((n, path, mode, False))
            # how the failure is reported: a descriptor shortage is EMFILE (per process) or ENFILE (system wide); a transient failure may be
            # any I/O error - what counts for the property is whether the file can be opened once the other handles are closed
            code = (self.plan.get('errnos') or {}).get(kind, 'EMFILE')
            self.errnos_used.add(f'{kind}:{code}')
            if code is None:
                raise OSError('open failed (injected %s, no errno)' % kind)
            raise OSError(getattr(errno, code), os.strerror(getattr(errno, code)) + ' (injected %s)' % kind, path)
        self.opens.append((n, path, mode, True))

    def wrap(self, real):
        inj = self
        inj.live += 1
        inj.max_live = max(inj.max_live, inj.live)

        class H:
            closed_ = False

            def write(self_, data):
                return real.write(data)

            def close(self_):
                if not self_.closed_:
                    self_.closed_ = True
                    inj.live -= 1
                return real.close()

            def __getattr__(self_, name):
                return getattr(real, name)
        return H()

    def install(self, root):
        """Every way of opening a file below `root` - open(), gzip.open(), gzip.GzipFile(), io wrappers - ends in builtins.open: the fault
        plan is applied there, so the injection does not depend on how the code under test spells its open call."""
        self.root = os.path.abspath(root) + os.sep
        self.real_open = builtins.open
        inj = self

        def opener(file, mode='r', *a, **k):
            if isinstance(file, (str, bytes, os.PathLike)) and os.path.abspath(os.fsdecode(file)).startswith(inj.root):
                path = os.path.abspath(os.fsdecode(file))       # bare file names of the working directory are the same files
                inj._maybe_fail(path, mode)
                return inj.wrap(inj.real_open(file, mode, *a, **k))
            return inj.real_open(file, mode, *a, **k)
        builtins.open = opener

    def uninstall(self):
        builtins.open = self.real_open


def read_back(path, method):
    if not os.path.exists(path):
        return None
    if method == 1:
        with gzip.open(path, 'rb') as f:
            return f.read().decode()
    with builtins.open(path, encoding='utf-8') as f:
        return f.read()


def execute(hl_mod, d, seq, maxHandles, pruneEvery, method, plan, continue_after_raise=True, stale=(), close_at=(), bare=False):
    """Runs one write history against a fresh HandleLimiter under a fault plan.
    Returns (inj, history{path:[data]}, raised[(idx, path, exc, legit)], contents{path:str|None}, error or None)"""
    inj = Injector(dict(plan, permanent=os.path.join(d, plan['permanent']) if plan.get('permanent') else None))
    # files left behind by an earlier run into the same directory: the first open of a path in this run replaces them
    # (every second stale file was written by an earlier HandleLimiter of this very process - a re-run in the same interpreter)
    earlier = hl_mod.HandleLimiter(maxHandles=2, pruneEvery=2, compressionLevel=1)
    for si, fname in enumerate(stale):
        if si % 2:
            import io as _io
            import contextlib as _cl
            with _cl.redirect_stdout(_io.StringIO()):
                earlier.write(os.path.join(d, fname), '@stale_record_of_an_earlier_run\n', method=method)
        else:
            with (gzip.open(os.path.join(d, fname), 'wt') if method == 1 else builtins.open(os.path.join(d, fname), 'w')) as f:
                f.write('@stale_record_of_an_earlier_run\n')
    earlier.close()
    inj.install(d)
    hist = {}
    raised = []
    import io
    import contextlib
    cwd0 = os.getcwd()
    try:
        if bare:
            os.chdir(d)     # the writer is handed bare file names of the working directory (a tool run from inside its output folder)
        h = hl_mod.HandleLimiter(maxHandles=maxHandles, pruneEvery=pruneEvery, compressionLevel=1)
        for idx, (fname, data) in enumerate(seq):
            path = os.path.join(d, fname)
            wpath = fname if bare else path
            if idx in close_at:
                # the writer is closed in between (end of a lane, a flush requested by the caller) and used again: what was written stays
                with contextlib.redirect_stdout(io.StringIO()):
                    h.close()
            nf = len(inj.fired)
            try:
                with contextlib.redirect_stdout(io.StringIO()):
                    h.write(wpath, data, method=method)
                hist.setdefault(path, []).append(data)
            except Exception as ex:
                # legit iff the last fired fault happened with no live handle at all (everything else closed)
                legit = len(inj.fired) > nf and inj.fired[-1][3] == 0 and isinstance(ex, OSError)
                raised.append((idx, fname, repr(ex), legit))
                if not continue_after_raise:
                    break
        with contextlib.redirect_stdout(io.StringIO()):
            h.close()
    finally:
        os.chdir(cwd0)
        inj.uninstall()
    contents = {}
    err = None
    for fname in sorted(set(f for f, _ in seq)):
        path = os.path.join(d, fname)
        try:
            contents[path] = read_back(path, method)
        except Exception as ex:
            contents[path] = None
            err = f'{fname}: unreadable output ({ex!r})'
    return inj, hist, raised, contents, err


def decide(acc, seq, settings, plan, inj, hist, raised, contents, err, d):
    acc.evals += 1
    acc.count('inj:open_attempts', inj.attempt)
    acc.count('inj:faults_fired', len(inj.fired))
    for _, kind, _, _ in inj.fired:
        acc.count(f'inj:{kind}_fired')
    for e in inj.errnos_used:
        acc.count('inj:errno:' + e)
    acc.count('hist:writes', len(seq))
    reopen = sum(1 for (_, p, mode, ok) in inj.opens if ok and 'a' in mode)
    acc.count('reopen_append', reopen)
    wit = {'sequence': [(f, dt[:12]) for f, dt in seq][:40], 'settings': settings, 'plan': {k: (sorted(v) if isinstance(v, set) else v) for k, v in plan.items()},
           'fired': inj.fired[:10], 'raised': raised[:5]}
    if err:
        acc.violate('invalid-output-file', err, wit)
    for idx, fname, exc, legit in raised:
        if not legit:
            mech = 'retry-raises-' + exc.split('(')[0] if inj.fired else 'write-raises-without-fault'
            acc.violate(mech, f'write #{idx} to {fname} raised {exc} although other handles were open / no open failed with everything closed '
                              f'(faults fired: {inj.fired[:4]})', wit)
    for fname in sorted(set(f for f, _ in seq)):
        path = os.path.join(d, fname)
        exp = ''.join(hist.get(path, []))
        got = contents.get(path)
        if fname in settings.get('stale_files_all', ()) and not any(ok and p_ == path for (_, p_, _, ok) in inj.opens):
            # never opened successfully in this run: the file of the earlier run is simply still there
            exp = '@stale_record_of_an_earlier_run\n'
        acc.count('oracle:files_compared')
        if got is None:
            if exp:
                acc.violate('file-missing', f'{fname} missing although {len(hist[path])} writes succeeded', wit)
            continue
        if got != exp:
            if len(got) < len(exp) and exp.startswith(got):
                mech = 'records-lost-tail'
            elif len(got) < len(exp):
                mech = 'records-lost'
            elif got.startswith(exp) or sorted(got.split('\n')) != sorted(exp.split('\n')):
                mech = 'records-duplicated-or-foreign'
            else:
                mech = 'records-reordered'
            acc.violate(mech, f'{fname}: file has {got.count(chr(10))} records, history has {exp.count(chr(10))}; faults {inj.fired[:3]}', wit)
    return bool(inj.fired) or reopen > 0


def gen_cases(tier, seed):
    cases = []
    n_enum = 40 if tier == 'quick' else 1500
    for i in range(n_enum):
        cases.append({'kind': 'enum', 'i': i, 'seed': seed, 'pairs': tier == 'thorough' or i % 4 == 0})
    for i in range(32 if tier == 'quick' else 1500):
        cases.append({'kind': 'random', 'i': i, 'seed': seed})
    for i in range(2 if tier == 'quick' else 8):
        cases.append({'kind': 'rlimit', 'i': i, 'seed': seed})
    for i in range(6 if tier == 'quick' else 30):
        cases.append({'kind': 'split', 'i': i, 'seed': seed})
    return cases


def run_case(case):
    acc = Acc()
    if case['kind'] in ('enum', 'random'):
        from singlecellmultiomics.pyutils import handlelimiter as hl_mod
        r = rng(case['seed'], 'C19', case['kind'], case['i'])
        if case['kind'] == 'enum':
            nfiles = r.randint(1, 4)
            nw = r.randint(2, 12)
            files = [f'cell{j}.out' for j in range(nfiles)]
            seq = [(r.choice(files), f'w{k}:{r.randint(0, 999)}\n') for k in range(nw)]
            settings = {'maxHandles': r.randint(1, 3), 'pruneEvery': r.randint(1, 4), 'method': r.choice([1, 1, 0])}
            if case['i'] % 3 == 2 and settings['method'] == 1:
                seq = [(f, (dt.replace('w', 'w\u00b5', 1) if k % 2 == 0 else dt)) for k, (f, dt) in enumerate(seq)]
                acc.count('hist:records_with_non_ascii_text')
            plans = [{}]
            with Scratch('c19') as d:
                inj0, *_ = execute(hl_mod, d, seq, settings['maxHandles'], settings['pruneEvery'], settings['method'], {})
            N = inj0.attempt + 3
            plans += [{'transient': {a}} for a in range(N)]
            if case['pairs']:
                plans += [{'transient': {a, b}} for a, b in itertools.combinations(range(N), 2)]
                plans += [{'transient': {a}, 'emfile_k': k} for a in range(N) for k in (1, 2)]
            plans += [{'emfile_k': k} for k in (1, 2, 3, 4)]
            plans += [{'permanent': f} for f in files]
        else:
            nfiles = r.choice([2, 5, 20, 60, 200])
            files = [f'c{j}.out' for j in range(nfiles)]
            nw = r.randint(nfiles, 6 * nfiles + 10)
            seq = [(r.choice(files) if r.random() < 0.8 else files[k % nfiles], f'@r{k}\nACGT{r.randint(0, 9999)}\n+\nIIII\n') for k in range(nw)]
            if case['i'] % 2 == 0:
                # long reads between the short ones: records of 4 - 20 kb
                for k in r.sample(range(nw), max(1, nw // 15)):
                    n_ = r.choice([4100, 8192, 10000, 20000])
                    seq[k] = (seq[k][0], f'@long{k}\n' + 'ACGT' * (n_ // 4) + '\n+\n' + 'I' * n_ + '\n')
                acc.count('hist:records_of_several_kb')
            settings = {'maxHandles': r.choice([1, 2, 4, 8, 16, 64]), 'pruneEvery': r.choice([1, 2, 5, 10, 50]), 'method': r.choice([1, 1, 0])}
            if case['i'] % 3 == 2 and settings['method'] == 1:
                # read names which carry a library name with characters outside ASCII (taken from a folder name); the compressed writer encodes UTF-8
                for k in range(0, nw, 3):
                    seq[k] = (seq[k][0], seq[k][1].replace('\n', ';LY:H\u00fcbrecht_5\u00b5l_\u6587\n', 1))
                acc.count('hist:records_with_non_ascii_text')
            plans = []
            for _ in range(12):
                p = {}
                if r.random() < 0.7:
                    p['emfile_k'] = r.choice([1, 2, 3, 5, 10, 30])
                if r.random() < 0.6:
                    p['transient'] = set(r.sample(range(0, 2 * nw), min(2 * nw, r.randint(1, 6))))
                if r.random() < 0.15:
                    p['permanent'] = r.choice(files)
                plans.append(p)
        nontriv = 0
        stale = [f for f in files if r.random() < 0.5] if r.random() < 0.6 else []
        acc.count('hist:stale_files_present', len(stale))
        settings['stale_files'] = stale[:8]
        settings['stale_files_all'] = stale
        close_at = set(r.sample(range(1, len(seq)), min(len(seq) - 1, r.randint(1, 3)))) if case['i'] % 3 == 1 and len(seq) > 1 else set()
        settings['closed_before_writes'] = sorted(close_at)
        acc.count('hist:closed_in_between_and_used_again', 1 if close_at else 0)
        bare = case['i'] % 4 == 2
        settings['bare_file_names_in_the_working_directory'] = bare
        acc.count('paths:bare_file_names', 1 if bare else 0)
        for pi, plan in enumerate(plans):
            if plan:
                plan['errnos'] = {'emfile': r.choice(['EMFILE', 'EMFILE', 'ENFILE']),
                                  'transient': r.choice(['EMFILE', 'EMFILE', 'ENFILE', 'EIO', 'EINTR', 'ENOMEM', 'EAGAIN', None]),
                                  'permanent': r.choice(['EMFILE', 'EACCES', 'ENOSPC'])}
            with Scratch('c19') as d:
                inj, hist, raised, contents, err = execute(hl_mod, d, seq, settings['maxHandles'], settings['pruneEvery'], settings['method'], plan, stale=stale, close_at=close_at, bare=bare)
                if decide(acc, seq, settings, plan, inj, hist, raised, contents, err, d):
                    acc.distinct += 1
        acc.sample = {'kind': case['kind'], 'writes': len(seq), 'files': nfiles, 'settings': settings, 'fault_plans': len(plans),
                      'example_plan': {k: (sorted(v) if isinstance(v, set) else v) for k, v in plans[-1].items()},
                      'sequence_head': [(f, dt.strip()[:16]) for f, dt in seq[:6]]}
    elif case['kind'] == 'rlimit':
        run_rlimit(case, acc)
    else:
        run_split(case, acc)
    return acc


RLIMIT_DRIVER = r'''
import sys, os, json, gzip, resource, io, contextlib, random
from singlecellmultiomics.pyutils.handlelimiter import HandleLimiter
from singlecellmultiomics.fastqProcessing.fastqHandle import FastqHandle
d, seed, mode = sys.argv[1], sys.argv[2], sys.argv[3]
r = random.Random(seed)
resource.setrlimit(resource.RLIMIT_NOFILE, (40, 40))
emfile = 0
# the descriptor shortage is observed where every way of opening a file ends up: at the built-in open (gzip.open, gzip.GzipFile and plain open
# all go through it), not at a function of the module under test
import builtins
real_open = builtins.open
def counting_open(*a, **k):
    global emfile
    try:
        return real_open(*a, **k)
    except OSError as e:
        if e.errno == 24:
            emfile += 1
        raise
builtins.open = counting_open
hist = {}
raised = []
if mode == 'limiter':
    h = HandleLimiter(maxHandles=500, pruneEvery=10000, compressionLevel=1)
    files = [os.path.join(d, f'c{j}.gz') for j in range(150)]
    for k in range(900):
        p = files[k % 150] if k < 300 else r.choice(files)
        data = f'@r{k}\nACGT\n+\nIIII\n'
        try:
            with contextlib.redirect_stdout(io.StringIO()):
                h.write(p, data, method=1)
            hist.setdefault(p, []).append(data)
        except Exception as e:
            raised.append([k, p, repr(e)])
    with contextlib.redirect_stdout(io.StringIO()):
        h.close()
else:
    class Rec:
        # two demultiplexing methods number their cells alike: a cell is (index, method), and so is its file
        def __init__(self, cell, k, mate): self.tags = {'bi': cell, 'MX': ('NLA', 'CS2C8U6')[(k // 3) % 2]}; self.s = f'@r{k}/{mate}' + (';LY:H\u00fcbrecht_5\u00b5l' if k % 5 == 0 else '') + '\nACGT\n+\nIIII\n'
        def __str__(self): return self.s
    fh = FastqHandle(os.path.join(d, 'out'), pairedEnd=True, single_cell=True, maxHandles=500)
    for k in range(700):
        cell = k % 120 if k < 240 else r.randrange(120)
        recs = (Rec(cell, k, 1), Rec(cell, k, 2))
        try:
            with contextlib.redirect_stdout(io.StringIO()):
                fh.write(recs)
            for mate, rec in zip(('R1', 'R2'), recs):
                hist.setdefault(os.path.join(d, f"out.{cell}.{rec.tags['MX']}.{mate}.fastq.gz"), []).append(str(rec))
        except Exception as e:
            raised.append([k, str(cell), repr(e)])
    with contextlib.redirect_stdout(io.StringIO()):
        fh.close()
builtins.open = real_open
resource.setrlimit(resource.RLIMIT_NOFILE, (40, 40))
json.dump({'hist': hist, 'raised': raised, 'emfile': emfile}, open(os.path.join(d, 'result.json'), 'w'))
'''


def run_rlimit(case, acc):
    mode = 'limiter' if case['i'] % 2 == 0 else 'fastqhandle'
    with Scratch('c19r') as d:
        drv = os.path.join(d, 'drv.py')
        with open(drv, 'w') as f:
            f.write(RLIMIT_DRIVER)
        try:
            p = subprocess.run([PY, drv, d, f"{case['seed']}/{case['i']}", mode], capture_output=True, text=True, timeout=300)
        except subprocess.TimeoutExpired:
            raise RuntimeError('rlimit driver watchdog')
        res_path = os.path.join(d, 'result.json')
        if not os.path.exists(res_path):
            acc.violate('rlimit-run-died', f'{mode} under RLIMIT_NOFILE=40 died: rc={p.returncode} {p.stderr[-600:]}', {'mode': mode})
            acc.evals += 1
            return
        res = json.load(open(res_path))
        acc.evals += 1
        acc.count('rlimit:real_emfile_seen', res['emfile'])
        acc.count('hist:writes', sum(len(v) for v in res['hist'].values()))
        acc.count('inj:open_attempts', 0)
        wit = {'mode': mode, 'raised': res['raised'][:5], 'emfile': res['emfile']}
        for k, pth, exc in res['raised'][:3]:
            acc.violate('retry-raises-' + exc.split('(')[0], f'{mode}: write #{k} raised {exc} under RLIMIT_NOFILE=40 although other handles could be closed', wit)
        bad = 0
        for pth, datas in res['hist'].items():
            acc.count('oracle:files_compared')
            try:
                got = read_back(pth, 1)
            except Exception as ex:
                got = None
            if got != ''.join(datas):
                bad += 1
        if bad:
            acc.violate('records-lost', f'{mode}: {bad} of {len(res["hist"])} files differ from the write history under RLIMIT_NOFILE=40', wit)
        if res['emfile'] > 0:
            acc.sigs.add(f"rlimit/{mode}/{case['i']}")
        acc.sample = {'rlimit': 40, 'mode': mode, 'files': len(res['hist']), 'real_EMFILE_errors': res['emfile'], 'raised': len(res['raised'])}


SPLIT_DRIVER = r'''
import sys, runpy
sys.argv = ['bamSplitByTag.py'] + sys.argv[1:]
import singlecellmultiomics.bamProcessing.bamSplitByTag as m
runpy.run_path(m.__file__, run_name='__main__')
'''


def run_split(case, acc):
    import pysam
    from vlib.sim.bam import write_bam
    r = rng(case['seed'], 'C19', 'split', case['i'])
    with Scratch('c19s') as d:
        ncell = r.randint(1, 12)
        cells = [f'cell_{j}' for j in range(ncell)]
        refs = [('chr1', 5000), ('chr2', 3000)]
        recs = []
        for k in range(r.randint(5, 150)):
            tags = {'XX': k}
            if r.random() < 0.9:
                tags['SM'] = r.choice(cells)
            tid = r.randrange(2)
            recs.append({'name': f'q{k}', 'flag': 0, 'tid': tid, 'pos': r.randint(0, refs[tid][1] - 30), 'cigar': '20M',
                         'seq': 'ACGTACGTACGTACGTACGT', 'qual': [30] * 20, 'tags': tags})
        bam = write_bam(os.path.join(d, 'in.bam'), refs, recs)
        out = os.path.join(d, 'out') + '/'
        mh = r.randint(1, 5)
        drv = os.path.join(d, 'drv.py')
        with open(drv, 'w') as f:
            f.write(SPLIT_DRIVER)
        p = subprocess.run([PY, drv, bam, 'SM', '-o_folder', out, '-max_handles', str(mh)], capture_output=True, text=True, timeout=600, cwd=d)
        acc.evals += 1
        if p.returncode != 0:
            acc.violate('split-run-failed', f'bamSplitByTag rc={p.returncode}: {p.stderr[-500:]}', {'max_handles': mh, 'cells': ncell})
            return
        with pysam.AlignmentFile(bam) as f:
            truth = {}
            for a in f:
                if a.has_tag('SM'):
                    truth.setdefault(a.get_tag('SM'), []).append((a.query_name, a.reference_name, a.reference_start, a.get_tag('XX')))
        for cell, exp in truth.items():
            pth = f'{out}{cell}.bam'
            acc.count('split:bams_compared')
            acc.count('oracle:files_compared')
            if not os.path.exists(pth):
                acc.violate('split-file-missing', f'{cell}.bam missing (max_handles={mh}, {ncell} cells)', {'max_handles': mh})
                continue
            with pysam.AlignmentFile(pth) as f:
                got = [(a.query_name, a.reference_name, a.reference_start, a.get_tag('XX')) for a in f]
            if got != exp:
                acc.violate('split-records-differ', f'{cell}.bam has {len(got)} records, expected {len(exp)} (max_handles={mh})',
                            {'max_handles': mh, 'got': got[:5], 'expected': exp[:5]})
        extra = set(os.path.basename(x)[:-4] for x in os.listdir(out) if x.endswith('.bam')) - set(truth)
        if extra:
            acc.violate('split-foreign-file', f'unexpected outputs {sorted(extra)[:4]}', {})
        if len(truth) > mh:
            acc.sigs.add(f"split/{case['i']}/{ncell}/{mh}")
        acc.count('hist:writes', len(recs))
        acc.sample = {'bamSplitByTag': {'cells': ncell, 'max_handles': mh, 'records': len(recs), 'passes_needed': -(-len(truth) // mh) if truth else 0}}
