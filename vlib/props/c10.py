"""C10 - every counted read lands in exactly the bins containing its coordinate.

Monitors: (A) both copies of coordinate_to_bins are called over a grid and decided by integer
arithmetic; (B) create_count_table is run on generated BAMs while a wrapper on the module's
coordinate_to_bins records every call made while the table is built; the returned DataFrame is
decided against an independent table.
"""
import os
import math
from types import SimpleNamespace
from vlib.common import Acc, rng, Scratch

PROPERTY = 'C10'
LEVEL = 'exploration'
RULE = ('(A) grid: every x in 0..N for every (b, s<=b) with b up to the tier bound, for both copies of coordinate_to_bins, '
        'plus large b/s (up to 1e6, coordinates up to 3e8) at exact multiples and +-1; a grid point is non-trivial when x is '
        'within 1 of a multiple of s or of a window end (boundary case) - counted per distinct (copy,x,b,s). '
        '(B) table: generated BAMs (1-3 contigs, 1-4 cells, sites at exact multiples of b and s, 0, contig end-1 and random) '
        'through create_count_table(bin=b, sliding=s|None, keepOverBounds on/off, bin tag DS / a custom tag / reference_start); '
        'a table case is non-trivial when at least one site is an exact multiple of s and one window is rejected or kept over bounds.'
        ' Plus two files with different contig lengths in one call and a second call with the same argument namespace.')
ASSUMPTIONS = ['floor-based integer bin arithmetic is the specification: window i is [i*s, i*s+b)',
               'a bin is "inside the contig" when start>=0 and end<=contig length (the documented --keepOverBounds rule)']
MIN_NONTRIVIAL = {'quick': 2000, 'thorough': 50000}
REQUIRED_MONITORS = ['option:doNotDivideFragments=True,divideMultimapping=True', 'call:bamToCountTable.coordinate_to_bins', 'call:utils.binning.coordinate_to_bins',
                     'hook:coordinate_to_bins_during_table', 'table:cells_compared', 'history:two_files_one_call', 'history:same_args_second_call', 'option:splitFeatures_with_bin', 'option:bin_tag_is_the_only_feature', 'lib:contig_shorter_than_one_bin']
EXHAUSTIVE = {'quick': True, 'thorough': True}


def expected_bins(x, b, s):
    lo = (x - b) // s + 1
    hi = x // s
    return [(i * s, i * s + b) for i in range(lo, hi + 1)]


def gen_cases(tier, seed):
    cases = []
    bmax, xmax = (24, 300) if tier == 'quick' else (64, 2000)
    for b in range(1, bmax + 1):
        cases.append({'kind': 'grid', 'b': b, 'xmax': xmax})
    for i in range(8 if tier == 'quick' else 400):
        cases.append({'kind': 'large', 'i': i, 'seed': seed})
    for i in range(40 if tier == 'quick' else 4000):
        cases.append({'kind': 'table', 'i': i, 'seed': seed})
    return cases


def check_point(acc, fn, label, x, b, s):
    got = fn(x, b, s)
    acc.evals += 1
    acc.count('call:' + label)
    exp = expected_bins(x, b, s)
    got_n = [(int(a), int(c)) for a, c in got]
    if got_n != exp:
        extra = [w for w in got_n if w not in exp]
        missing = [w for w in exp if w not in got_n]
        if extra and not missing and all(w[1] == x for w in extra):
            mech = 'window-ending-at-coordinate-included'
        elif extra and not missing and all(not (w[0] <= x < w[1]) for w in extra):
            mech = 'window-not-containing-coordinate'
        elif missing and not extra:
            mech = 'containing-window-missing'
        else:
            mech = 'wrong-windows'
        acc.violate(mech, f'{label}({x},{b},{s}) -> {got_n[:6]} expected {exp[:6]}',
                    {'fn': label, 'x': x, 'b': b, 's': s, 'got': got_n[:10], 'expected': exp[:10]})
    boundary = (x % s in (0, 1, s - 1)) or ((x - b) % s in (0, 1, s - 1))
    return boundary


def run_case(case):
    from singlecellmultiomics.bamProcessing import bamToCountTable as b2c
    from singlecellmultiomics.utils import binning
    acc = Acc()
    fns = [(b2c.coordinate_to_bins, 'bamToCountTable.coordinate_to_bins'),
           (binning.coordinate_to_bins, 'utils.binning.coordinate_to_bins')]
    if case['kind'] == 'grid':
        b = case['b']
        for s in range(1, b + 1):
            for x in range(0, case['xmax'] + 1):
                for fn, label in fns:
                    if check_point(acc, fn, label, x, b, s):
                        acc.distinct += 1
        acc.sample = {'grid_b': b, 's': f'1..{b}', 'x': f"0..{case['xmax']}",
                      'example': {'x': 2 * b, 'b': b, 's': b, 'got': [list(map(int, w)) for w in fns[0][0](2 * b, b, b)]}}
    elif case['kind'] == 'large':
        r = rng(case['seed'], 'C10', 'large', case['i'])
        for _ in range(300):
            b = r.choice([1000, 5000, 50000, 100000, 250000, 1000000, r.randint(2, 10 ** 6)])
            s = r.choice([b, b, max(1, b // 2), max(1, b // 5), r.randint(1, b)])
            m = r.randint(0, 300_000_000 // s)
            for x in {m * s, m * s + 1, max(0, m * s - 1), m * s + b, max(0, m * s + b - 1), r.randint(0, 300_000_000)}:
                for fn, label in fns:
                    if check_point(acc, fn, label, x, b, s):
                        acc.distinct += 1
        acc.sample = {'large': True, 'example_b': b, 'example_s': s, 'example_x': x}
    else:
        run_table(case, acc, b2c)
    return acc


def table_args(bam, b, s, keep, bintag, joined):
    return SimpleNamespace(
        alignmentfiles=[bam], head=None, o=None, bin=b, binTag=bintag, sliding=s, bedfile=None, showtags=False,
        featureTags=None, joinedFeatureTags=joined, byValue=None, sampleTags='SM', proper_pairs_only=False,
        no_indels=False, max_base_edits=None, no_softclips=False, minMQ=0, filterXA=False, dedup=False,
        divideMultimapping=False, doNotDivideFragments=False, contig=None, blacklist=None, r1only=False, r2only=False,
        filterMP=False, splitFeatures=False, featureDelimiter=',', feature_delimiter=',', noNames=False,
        keepOverBounds=keep, bulk=False)


def df_to_dict(df):
    out = {}
    import pandas as pd
    for col in df.columns:
        ser = df[col]
        for idx, val in ser.items():
            if val is None or (isinstance(val, float) and math.isnan(val)) or val == 0:
                continue
            key = idx if isinstance(idx, tuple) else (idx,)
            key = tuple(int(k) if hasattr(k, '__index__') and not isinstance(k, bool) else k for k in key)
            c = col if not isinstance(col, tuple) else (col[0] if len(col) == 1 else col)
            out[(c, key)] = float(val)
    return out


def run_table(case, acc, b2c):
    from vlib.sim.bam import write_bam
    r = rng(case['seed'], 'C10', 'table', case['i'])
    b = r.choice([1, 2, 3, 5, 10, 30, 100, 1000])
    s = r.choice([None, None, b, max(1, b // 2), max(1, b // 3), r.randint(1, b)])
    se = s if s is not None else b
    keep = r.random() < 0.4
    bintag = r.choice(['DS', 'DS', 'xs', 'reference_start'])
    refs = [(f'chr{j + 1}', r.choice([b * r.randint(1, 12), b * r.randint(1, 12) + r.randint(1, b), r.randint(20, 3000)]))
            for j in range(r.randint(1, 3))]
    if case['i'] % 3 == 2 and b >= 4:
        # a contig shorter than one bin (chrM, unplaced scaffolds with large bins): with keepOverBounds its reads are kept in the over-bounds bin
        refs.append(('chrTiny', r.randint(2, b - 1)))
        acc.count('lib:contig_shorter_than_one_bin')
    cells = [f'LIB_{j}' for j in range(r.randint(1, 4))]
    # history: several alignment files in one call, or the same args namespace used for a second call; the files name the same
    # contigs with different lengths (two assemblies / a trimmed reference) and every read is judged by the length in its own file
    history = r.choice(['one', 'one', 'two_files_one_call', 'same_args_second_call'])
    refs_per_file = [refs]
    if history != 'one':
        refs_per_file.append([(nm, r.choice([ln, max(20, ln // 2), ln * 2, ln + b, max(20, ln - b)])) for nm, ln in refs])
    recs = []
    recs_per_file = [[] for _ in refs_per_file]
    truth = {}
    multiples = 0
    rejected = 0
    n = r.randint(5, 60)
    # weights: --doNotDivideFragments (a mapped pair counts 1 per read) and --divideMultimapping (1/NH or 1/len(XA.split(';'))), alone and together
    dnd = case['i'] % 3 == 1
    dmm = case['i'] % 4 in (1, 2)
    rw = rng(case['seed'], 'C10', 'weights', case['i'])
    for k in range(n):
        tid = r.randrange(len(refs))
        fi = r.randrange(len(refs_per_file))
        clen = refs_per_file[fi][tid][1]
        readlen = min(20, clen)
        mode = r.random()
        if mode < 0.35:
            x = se * r.randint(0, max(0, (clen - 1) // se))
        elif mode < 0.5:
            x = b * r.randint(0, max(0, (clen - 1) // b))
        elif mode < 0.6:
            x = 0
        elif mode < 0.7:
            x = clen - 1
        else:
            x = r.randint(0, clen - 1)
        x = min(x, clen - 1)
        if bintag == 'reference_start':
            x = min(x, clen - readlen)
            pos = x
        else:
            pos = min(max(0, x - r.randint(0, 5)), clen - readlen)
        paired = r.random() < 0.3
        flag = 0
        w = 1.0
        if paired:
            flag = 1 | 64 | (0 if r.random() < 0.7 else 8)
            w = 0.5 if not flag & 8 else 1.0
            if dnd:
                w = 1.0
        cell = r.choice(cells)
        tags = {'SM': cell}
        if dmm:
            u = rw.random()
            if u < 0.4:
                tags['NH'] = rw.randint(1, 5)
                w = w / tags['NH']
            elif u < 0.55:
                alts = rw.randint(1, 4)
                tags['XA'] = ''.join(f'chr9,+{rw.randint(1, 999)},20M,0;' for _ in range(alts))
                w = w / len(tags['XA'].split(';'))
                if u < 0.45:
                    tags['NH'] = 7          # XA takes precedence over NH
        if bintag in ('DS', 'xs'):
            tags[bintag] = x if (k + case['i']) % 7 else str(x)     # every seventh value is stored as text instead of as an integer
        recs.append({'name': f'r{k}', 'flag': flag, 'tid': tid, 'pos': pos, 'mapq': 60, 'cigar': f'{readlen}M',
                     'seq': 'A' * readlen, 'qual': [30] * readlen, 'tags': tags,
                     'next_tid': tid if paired and not flag & 8 else -1, 'next_pos': pos if paired and not flag & 8 else -1})
        recs_per_file[fi].append(recs[-1])
        if x % se == 0:
            multiples += 1
        for (st, en) in expected_bins(x, b, se):
            if not keep and (st < 0 or en > clen):
                rejected += 1
                continue
            if keep and (st < 0 or en > clen):
                rejected += 1
            key = (cell, (refs[tid][0], st, en))
            truth[key] = truth.get(key, 0) + w
    only_bin_feature = case['i'] % 5 == 3 and bintag in ('DS', 'xs')
    if only_bin_feature:
        acc.count('option:bin_tag_is_the_only_feature')
        t2 = {}
        for (cell, (cn, st, en)), w_ in truth.items():
            t2[(cell, (st, en))] = t2.get((cell, (st, en)), 0) + w_
        truth = t2
    calls = []
    orig = b2c.coordinate_to_bins

    def spy(point, bin_size, sliding_increment):
        res = orig(point, bin_size, sliding_increment)
        calls.append((point, bin_size, sliding_increment, res))
        return res
    df_second = None
    with Scratch('c10') as d:
        bams = [write_bam(os.path.join(d, f'in{fi}.bam'), rf, rc) for fi, (rf, rc) in enumerate(zip(refs_per_file, recs_per_file))]
        b2c.coordinate_to_bins = spy
        try:
            import io
            import contextlib
            with contextlib.redirect_stdout(io.StringIO()):
                args = table_args(bams[0], b, s, keep, bintag, 'reference_name')
                if only_bin_feature:
                    args.joinedFeatureTags = bintag      # the binned tag is the only feature: rows are (start, end), summed over the contigs
                args.doNotDivideFragments = dnd
                args.divideMultimapping = dmm
                acc.count(f'option:doNotDivideFragments={dnd},divideMultimapping={dmm}')
                if case['i'] % 4 == 1:
                    # --splitFeatures (one count per value of a multi-valued feature) next to -bin: the contig feature has one value per read,
                    # so the binned table is the same table
                    args.splitFeatures = True
                    acc.count('option:splitFeatures_with_bin')
                if history == 'two_files_one_call':
                    args.alignmentfiles = list(bams)
                    df = b2c.create_count_table(args, return_df=True)
                elif history == 'same_args_second_call':
                    df = b2c.create_count_table(args, return_df=True)
                    args.alignmentfiles = [bams[1]]
                    df_second = b2c.create_count_table(args, return_df=True)
                else:
                    df = b2c.create_count_table(args, return_df=True)
        except Exception as ex:
            import traceback as _tb
            where = _tb.extract_tb(ex.__traceback__)[-1]
            acc.violate(f'count-table-raised:{type(ex).__name__}:{os.path.basename(where.filename)}:{where.name}',
                        f'create_count_table raised {ex!r} for -bin {b} -sliding {s} -binTag {bintag} joinedFeatureTags={args.joinedFeatureTags} '
                        f'splitFeatures={args.splitFeatures} ({history})', {'bin': b, 'sliding': s, 'binTag': bintag, 'joined': args.joinedFeatureTags,
                                                                            'splitFeatures': args.splitFeatures, 'history': history})
            _tb.clear_frames(ex.__traceback__)
            return
        finally:
            b2c.coordinate_to_bins = orig
    acc.count('history:' + history)
    acc.evals += 1
    acc.count('hook:coordinate_to_bins_during_table', len(calls))
    for (x, bb, ss, res) in calls:
        exp = expected_bins(x, bb, ss)
        if [(int(a), int(c)) for a, c in res] != exp:
            acc.count('hook:wrong_bins_during_table')
    got = df_to_dict(df)
    if df_second is not None:
        for key, val in df_to_dict(df_second).items():
            got[key] = got.get(key, 0.0) + val
    acc.count('table:cells_compared', len(set(got) | set(truth)))
    diffs = []
    for key in sorted(set(got) | set(truth), key=repr):
        g, e = got.get(key, 0.0), truth.get(key, 0.0)
        if abs(g - e) > 1e-9:
            diffs.append((key, g, e))
    gt, et = sum(got.values()), sum(truth.values())
    if diffs:
        sites = {}
        for rec in recs:
            xx = rec['tags'].get(bintag, rec['pos'])
            sites.setdefault((rec['tags']['SM'], refs[rec['tid']][0]), set()).add(xx)
        if all(g > e and key[1][2] in sites.get((key[0], key[1][0]), ()) for key, g, e in diffs):
            mech = 'window-ending-at-coordinate-included'
        elif gt != et and all(g >= e for _, g, e in diffs) and not keep:
            mech = 'table-overcount'
        else:
            mech = 'table-mismatch'
        acc.violate(mech, f'count table differs in {len(diffs)} cells (total {gt} expected {et}); b={b} s={s} keep={keep} '
                          f'binTag={bintag} history={history}; first {diffs[:3]}',
                    {'b': b, 's': s, 'keepOverBounds': keep, 'binTag': bintag, 'history': history, 'refs_per_file': refs_per_file, 'diffs': [list(map(str, x)) for x in diffs[:10]],
                     'reads': [(x['name'], refs[x['tid']][0], x['pos'], x['tags']) for x in recs][:80]})
    if multiples and rejected:
        acc.sigs.add(f"table/{case['seed']}/{case['i']}")
    acc.sample = {'table': {'b': b, 's': s, 'keepOverBounds': keep, 'binTag': bintag, 'history': history, 'refs': refs, 'reads': n,
                            'sites_on_multiples': multiples, 'windows_over_bounds': rejected,
                            'table_total': gt, 'expected_total': et, 'coordinate_to_bins_calls': len(calls)}}
