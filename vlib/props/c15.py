"""C15 - consensus pseudo-reads are well-formed and span exactly the molecule coverage.

Monitor: the records returned by Molecule.deduplicate_majority (API) and written by bamtagmultiome --multiprocess
--consensus [--no_source_reads] (CLI) for simulated molecules with gapped coverage, both strands, conflicts with equal and
unequal qualities. Oracle: aligned blocks == covered reference positions, seq/qual/CIGAR lengths agree, the MD tag (parsed
independently) reproduces the true reference, decidable base calls are right, tags equal the molecule's.
"""
import os
import re
from collections import defaultdict, Counter
from vlib.common import Acc, rng, Scratch
from vlib.sim import frags as F
from vlib.sim.bam import write_bam
from vlib import tagger as T

PROPERTY = 'C15'
LEVEL = 'exploration'
RULE = ('simulated NLA / CHIC molecules of 1..5 fragments: fragment lengths 60..700 with 30-40 bp reads (gapped coverage, gaps beyond '
        'max_N_span), both strands, single fragment, conflicting bases with equal / unequal qualities, single-end; consensus requested through '
        'Molecule.deduplicate_majority(max_N_span None/50/300) and through the --consensus command line with and without source reads. '
        'Non-trivial = molecule with gapped coverage or a base conflict; distinct = distinct (library seed, molecule, max_N_span).'
        " Plus the repository's likelihood model recomputed in 60-digit arithmetic on every conflicting position (planted 2-vs-2 quality patterns differing by 1e-8..1e-5) and max_associated_fragments with the TF tag of the source reads.")
ASSUMPTIONS = ['base calls are only checked where every sensible likelihood agrees: unanimous observations with Q>=10 give that base; two different bases '
               'with identical quality multisets give N; one base dominating in count and in every quality gives that base',
               'the MD tag is parsed tolerantly (missing zero separators accepted): only its meaning is compared with the reference']
MIN_NONTRIVIAL = {'quick': 150, 'thorough': 30000}
REQUIRED_MONITORS = ['lib:reads_with_an_aligned_block_of_one_base', 'lib:base_qualities_above_60', 'bases:unanimous_but_less_likely_than_no_call', 'ret:write_pysam_with_callback', 'history:grown_molecules', 'lib:reads_with_indel', 'ret:deduplicate_majority', 'reads:checked', 'reads:gapped', 'reads:reverse', 'bases:decidable_checked', 'bases:conflict_N_expected', 'bases:model_checked', 'bases:near_tie_checked', 'lib:near_tie_planted', 'lib:molecules_over_their_cap', 'lib:molecule_at_contig_start',
                     'cli:consensus_reads_checked', 'split:max_N_span']
SHARD_TIMEOUT = {'quick': 900, 'thorough': 5400}


def gen_cases(tier, seed):
    n = 64 if tier == 'quick' else 3000
    return [{'i': i, 'seed': seed} for i in range(n)]


def parse_md(md):
    """tolerant MD parser -> list of ('=', n) / ('X', base) / ('D', bases)"""
    out = []
    for tok in re.findall(r'\d+|\^[A-Za-z]+|[A-Za-z]', md):
        if tok.isdigit():
            out.append(('=', int(tok)))
        elif tok.startswith('^'):
            out.append(('D', tok[1:]))
        else:
            out.append(('X', tok.upper()))
    return out


def md_reference(read):
    """reference bases of the aligned (M) positions implied by MD + read sequence, or None when MD does not fit"""
    seq = read.query_sequence
    aligned_q = [qp for qp, rp in read.get_aligned_pairs(matches_only=True)]
    ops = parse_md(read.get_tag('MD'))
    ref = []
    i = 0
    for kind, val in ops:
        if kind == '=':
            for _ in range(val):
                if i >= len(aligned_q):
                    return None
                ref.append(seq[aligned_q[i]])
                i += 1
        elif kind == 'X':
            if i >= len(aligned_q):
                return None
            ref.append(val)
            i += 1
    if i != len(aligned_q):
        return None
    return ''.join(ref)


def model_call(o):
    """The repository's likelihood model in 60-digit arithmetic. o: list of (base, phred) observations of one position (one per read).
    likelihood(b) = prod(1 - 10^(-q/10) over the observations of b) * 4^(n_b - 1); the pseudo base N gets prod(10^(-q/10)) * 4^(n - 1).
    Returns (expected call or None when the two best candidates are closer than 1e-9 relative, relative gap)."""
    from decimal import Decimal, getcontext
    getcontext().prec = 60
    per = defaultdict(list)
    for b, q in o:
        per[b].append(1 - Decimal(10) ** (Decimal(-int(q)) / 10))
    per['N'] = [1 - p for b, ps in per.items() if b != 'N' for p in ps]
    like = {}
    for b, ps in per.items():
        v = Decimal(1)
        for p_ in ps:
            v *= p_
        like[b] = v / (Decimal('0.25') ** (len(ps) - 1))
    ranked = sorted(like.items(), key=lambda kv: -kv[1])
    if len(ranked) == 1:
        return ranked[0][0], 1.0
    (b1, l1), (b2, l2) = ranked[:2]
    if l1 == 0:
        return None, 0.0
    gap = float((l1 - l2) / l1)
    if gap > 1e-9:
        return b1, gap
    if l1 == l2 and all(len(ps) <= 2 for ps in per.values()):
        return 'N', 0.0
    return None, gap


_NEAR = []


def near_tie_patterns():
    """quality patterns (two reads against two reads) whose likelihoods differ by a relative 1e-8 .. 1e-5: decidable, but only just"""
    if not _NEAR:
        import numpy as np
        qs = np.arange(20, 46)
        e = 1 - np.power(10.0, -qs / 10)
        pair = np.outer(e, e)
        iu = [(i, j) for i in range(len(qs)) for j in range(i, len(qs))]
        vals = np.array([pair[i, j] for i, j in iu])
        order = np.argsort(vals)
        for a, b in zip(order[:-1], order[1:]):
            for c in (b,):
                gap = abs(vals[a] - vals[c]) / max(vals[a], vals[c])
                if 1e-8 < gap < 1e-5 and set(iu[a]) != set(iu[c]):
                    _NEAR.append(((int(qs[iu[a][0]]), int(qs[iu[a][1]])), (int(qs[iu[c][0]]), int(qs[iu[c][1]]))))
    return _NEAR


def plant_conflicts(r, gen, recs, truths, acc):
    """Rewrites one position of read 1 in molecules of >= 4 (or 2) fragments so that two bases are supported by planted quality patterns."""
    by_key = defaultdict(list)
    for t in truths.values():
        if t.get('valid'):
            by_key[t['key']].append(t['id'])
    r1 = {}
    for rec in recs:
        if not rec['flag'] & 128 and re.fullmatch(r'\d+M', rec['cigar'] or ''):
            r1[F.id_from_name(rec['name'])] = rec
    pats = near_tie_patterns()
    for key, ids in by_key.items():
        ids = [i for i in ids if i in r1]
        if len(ids) < 2 or r.random() < 0.3:
            continue
        lo = max(r1[i]['pos'] for i in ids) + 6
        hi = min(r1[i]['pos'] + len(r1[i]['seq']) for i in ids) - 6
        if hi <= lo:
            continue
        pos = r.randrange(lo, hi)
        ref = gen.get(gen.refs[r1[ids[0]]['tid']][0])
        b1 = ref[pos]
        b2 = r.choice([c for c in 'ACGT' if c != b1])
        if len(ids) >= 4 and pats and r.random() < 0.8:
            (qa, qb), (qc, qd) = r.choice(pats)
            if r.random() < 0.5:
                (qa, qb), (qc, qd) = (qc, qd), (qa, qb)
            plan = [(b1, qa), (b1, qb), (b2, qc), (b2, qd)]
            acc.count('lib:near_tie_planted')
        else:
            q = r.choice([20, 30, 37, 41])
            plan = r.choice([[(b1, q), (b2, q)], [(b1, q), (b2, q + 1)], [(b1, 44), (b2, 45)], [(b1, q), (b1, q), (b2, q)]])
            if len(plan) > len(ids):
                plan = plan[:2]
        r.shuffle(plan)
        for i, (b, q) in zip(ids, plan):
            rec = r1[i]
            qp = pos - rec['pos']
            rec['seq'] = rec['seq'][:qp] + b + rec['seq'][qp + 1:]
            rec['qual'] = list(rec['qual'])
            rec['qual'][qp] = q
        # the remaining fragments of the molecule do not cover the position with read 1 any more: blank it with an N of quality 2
        for i in ids[len(plan):]:
            rec = r1[i]
            qp = pos - rec['pos']
            rec['seq'] = rec['seq'][:qp] + 'N' + rec['seq'][qp + 1:]
            rec['qual'] = list(rec['qual'])
            rec['qual'][qp] = 2
        for i in ids:
            rec = r1[i]
            md, nm = F.md_nm(ref[rec['pos']:rec['pos'] + len(rec['seq'])], rec['seq'])
            rec['tags']['MD'], rec['tags']['NM'] = md, nm


def check_consensus_reads(acc, reads, mol_recs, gen, contig, truth_tags, label, wit):
    """mol_recs: the simulator records (dicts) of all reads of the molecule"""
    refseq = gen.get(contig)
    covered = set()
    obs = defaultdict(list)
    for rec in mol_recs:
        m = re.findall(r'(\d+)([MIDNS])', rec['cigar'])
        qp, rp = 0, rec['pos']
        for n, op in m:
            n = int(n)
            if op == 'M':
                for k in range(n):
                    covered.add(rp + k)
                    obs[rp + k].append((rec['seq'][qp + k], rec['qual'][qp + k]))
                qp += n
                rp += n
            elif op in ('S', 'I'):
                qp += n
            elif op in ('D', 'N'):
                rp += n
    got_cov = set()
    for a in reads:
        acc.count('reads:checked')
        if a.reference_name != contig:
            acc.violate('consensus-read-on-another-contig', f'{label}: the reads of the molecule lie on {contig}, its consensus record on {a.reference_name} '
                                                            f'(position {a.reference_start})', wit)
            continue
        if a.is_reverse:
            acc.count('reads:reverse')
        if 'N' in (a.cigarstring or ''):
            acc.count('reads:gapped')
        # lengths
        ql = a.infer_query_length()
        if a.query_sequence is None or len(a.query_sequence) != ql or a.query_qualities is None or len(a.query_qualities) != ql:
            acc.violate('consensus-seq-qual-cigar-length', f'{label}: sequence {len(a.query_sequence or "")} qualities {len(a.query_qualities or [])} CIGAR query length {ql}', wit)
            continue
        pos = [rp for qp, rp in a.get_aligned_pairs(matches_only=True)]
        if set(pos) & got_cov:
            acc.violate('consensus-reads-overlap', f'{label}: two consensus reads of one molecule cover the same positions', wit)
        got_cov.update(pos)
        if a.reference_name != contig:
            acc.violate('consensus-wrong-contig', f'{label}: contig {a.reference_name} expected {contig}', wit)
        # MD
        if not a.has_tag('MD'):
            acc.violate('consensus-md-missing', f'{label}: no MD tag', wit)
        else:
            implied = md_reference(a)
            true_ref = ''.join(refseq[p] for p in pos)
            if implied is None:
                acc.violate('consensus-md-does-not-fit-alignment', f'{label}: MD {a.get_tag("MD")} does not describe {len(pos)} aligned bases (CIGAR {a.cigarstring})', wit)
            elif implied != true_ref:
                gapped = 'N' in a.cigarstring
                acc.violate('consensus-md-wrong' + (':gapped' if gapped else ''), f'{label}: MD {a.get_tag("MD")} (CIGAR {a.cigarstring}) implies reference {implied[:40]} but the '
                                                                                 f'reference is {true_ref[:40]}', wit)
        # decidable base calls
        seq = a.query_sequence
        for qp, rp in a.get_aligned_pairs(matches_only=True):
            o = obs.get(rp)
            if not o:
                continue
            bases = Counter(b for b, q in o)
            call = seq[qp]
            if len(bases) >= 2 or any(q < 10 for b, q in o):
                exp_model, gap = model_call(o)
                if len(bases) == 1 and exp_model == 'N':
                    acc.count('bases:unanimous_but_less_likely_than_no_call')
                if exp_model is not None:
                    acc.count('bases:model_checked')
                    if gap < 1e-4:
                        acc.count('bases:near_tie_checked')
                    if call != exp_model:
                        mech = 'consensus-base-not-the-most-likely-call' if exp_model != 'N' else 'consensus-tie-not-N'
                        if exp_model != 'N' and call == 'N' and gap < 1e-4:
                            mech = 'consensus-N-for-a-decidable-near-tie'
                        acc.violate(mech, f'{label}: position {rp}: observations {sorted(o)} make {exp_model!r} the call (relative likelihood gap {gap:.3g}) '
                                          f'but the consensus says {call!r}', wit)
            if len(bases) == 1 and all(q >= 10 for b, q in o) and 'N' not in bases:
                acc.count('bases:decidable_checked')
                exp = next(iter(bases))
                if call != exp:
                    acc.violate('consensus-base-not-the-unanimous-call', f'{label}: position {rp}: all {len(o)} observations are {exp} but the consensus says {call}', wit)
            elif len(bases) == 2 and 'N' not in bases:
                (b1, n1), (b2, n2) = bases.most_common()
                q1 = sorted(q for b, q in o if b == b1)
                q2 = sorted(q for b, q in o if b == b2)
                if q1 == q2:
                    acc.count('bases:conflict_N_expected')
                    if call != 'N':
                        acc.violate('consensus-tie-not-N', f'{label}: position {rp}: {b1}{q1} vs {b2}{q2} is undecidable but the consensus says {call}', wit)
                elif n1 > n2 and min(q1) > max(q2) and min(q1) >= 10:
                    acc.count('bases:decidable_checked')
                    if call != b1:
                        acc.violate('consensus-base-not-the-dominant-call', f'{label}: position {rp}: {b1}{q1} dominates {b2}{q2} but the consensus says {call}', wit)
        # tags
        for t, v in truth_tags.items():
            gv = a.get_tag(t) if a.has_tag(t) else None
            if gv != v:
                acc.violate('consensus-tag-wrong:' + t, f'{label}: tag {t}={gv!r} expected {v!r}', wit)
    if got_cov != covered:
        extra = sorted(got_cov - covered)
        missing = sorted(covered - got_cov)
        acc.violate('consensus-blocks-differ-from-coverage', f'{label}: aligned blocks cover {len(got_cov)} positions, reads cover {len(covered)}; extra {extra[:5]} missing {missing[:5]}', wit)
    gaps = len(list(_ranges(covered))) > 1
    conflict = any(len(set(b for b, q in o)) > 1 for o in obs.values())
    return gaps or conflict


def _ranges(s):
    s = sorted(s)
    start = prev = None
    for x in s:
        if start is None:
            start = prev = x
        elif x == prev + 1:
            prev = x
        else:
            yield start, prev
            start = prev = x
    if start is not None:
        yield start, prev


LOWQ = [0]
HIGHQ = [False]


def edge_gap(indel, i, rid):
    """in every third library the deletions of read 2 sit next to its first or last aligned base (1M2D39M / 39M2D1M)"""
    if indel is not None and indel[0] == 'D' and i % 3 == 2:
        EDGE_GAPS[0] += 1
        return indel + (('first', 'last')[rid % 2],)
    return indel


EDGE_GAPS = [0]


def run_case(case):
    import pysam
    import singlecellmultiomics.molecule as smm
    import singlecellmultiomics.fragment as smf
    from singlecellmultiomics.molecule import MoleculeIterator
    acc = Acc()
    r = rng(case['seed'], 'C15', case['i'])
    HIGHQ[0] = case['i'] % 6 == 4
    acc.count('lib:base_qualities_above_60', 1 if HIGHQ[0] else 0)
    method = r.choice(['nla', 'nla', 'chic'])
    contigs = [('chr1', 9000), ('chr2', 5000)][:r.randint(1, 2)]
    gen = F.Genome(r, contigs)
    recs, truths = [], {}
    rid = 1
    for name, ln in contigs:
        first_base = r.random() < 0.4
        for k_ in range(r.randint(2, 6)):
            pos = r.randrange(900, ln - 900)
            if k_ == 0 and first_base:
                # a molecule whose coverage begins on the very first base of the contig (reference position 0)
                pos = 0 if method == 'nla' else 1
                acc.count('lib:molecule_at_contig_start')
            if method == 'nla':
                if 'CATG' in gen.get(name)[pos - 8:pos + 12]:
                    continue
                gen.plant(name, pos)
            for _ in range(r.randint(1, 2)):
                umi = F.rand_dna(r, 3)
                cell = r.randint(1, 2)
                reverse = r.random() < 0.5 and pos > 5
                for _ in range(r.choice([1, 2, 3, 4, 4, 5, 6])):
                    rl = r.randint(30, 40)
                    qual = None
                    if HIGHQ[0]:
                        # base qualities above 60 (long-read consensus, this tool's own consensus reads): 61 and 93 are different amounts of evidence
                        qual = ([r.choice([61, 62, 70, 90, 93]) for _ in range(rl)], [r.choice([61, 62, 70, 90, 93]) for _ in range(rl)])
                    elif r.random() < 0.5:
                        qual = ([r.choice([12, 20, 30, 37]) for _ in range(rl)], [r.choice([12, 20, 30, 37]) for _ in range(rl)])
                        if r.random() < 0.5:
                            # read tails of quality 0..3 (the sequencer's "no confidence" marks): a base that only such observations support is
                            # less likely than no call at all
                            for qa in qual:
                                k_ = r.randint(1, 6)
                                for j_ in (range(k_) if r.random() < 0.5 else range(rl - k_, rl)):
                                    qa[j_] = r.choice([0, 2, 2, 3])
                            LOWQ[0] += 1
                    fr, tr = F.make_fragment(gen, r, rid, case['i'] + 1, method, cell, name, pos, reverse, umi, r.choice([60, 75, 120, 300, 700]),
                                             r1_len=rl, r2_len=rl, mismatches=r.choice([0, 0, 1, 2]), r2_mismatches=r.choice([0, 0, 1]),
                                             single_end=r.random() < 0.1, qual=qual,
                                             r2_indel=edge_gap(r.choice([None, None, None, ('I', r.randint(1, 4)), ('D', r.randint(1, 4))]), case['i'], rid))
                    if fr is None:
                        continue
                    recs.extend(fr)
                    truths[rid] = tr
                    rid += 1
    if not truths:
        return acc
    plant_conflicts(r, gen, recs, truths, acc)
    acc.count('lib:reads_with_indel', sum(1 for x in recs if 'I' in x['cigar'] or 'D' in x['cigar']))
    import re as _re
    acc.count('lib:reads_with_an_aligned_block_of_one_base', sum(1 for x in recs if _re.search(r'^1M\d+D|\d+D1M$', x['cigar'])))
    byid = defaultdict(list)
    for rec in recs:
        byid[F.id_from_name(rec['name'])].append(rec)
    cfg = {'method': method, 'contigs': contigs, 'fragments': len(truths)}
    with Scratch('c15') as dd:
        fa = gen.write_fasta(os.path.join(dd, 'ref.fa'))
        bam = write_bam(os.path.join(dd, 'in.bam'), gen.refs, recs)
        mclass = smm.NlaIIIMolecule if method == 'nla' else smm.CHICMolecule
        fclass = smf.NlaIIIFragment if method == 'nla' else smf.CHICFragment
        # ------------------------------------------------------------------ API
        with pysam.AlignmentFile(bam) as f, pysam.FastaFile(fa) as reference:
            # a cap on the fragments kept per molecule (off by default): the surplus copies are counted, not stored - the fragment count the
            # consensus record carries is the one the molecule writes on its source reads
            cap = r.choice([None, None, 2, 3])
            margs = {'reference': reference}
            if cap:
                margs['max_associated_fragments'] = cap
            acc.count('config:max_associated_fragments', 1 if cap else 0)
            mols = list(MoleculeIterator(f, molecule_class=mclass, fragment_class=fclass, fragment_class_args={'umi_hamming_distance': 0},
                                         molecule_class_args=margs, yield_overflow=False))
            cb_path = os.path.join(dd, 'consensus_with_callback.bam')
            # the output file is not a copy of the input: its header lists an extra contig first and the others in reverse order (a header made
            # from another dictionary of the same reference)
            hd_ = f.header.to_dict()
            hd_['SQ'] = [{'SN': 'chrExtra', 'LN': 1234}] + list(reversed(hd_['SQ']))
            cb_out = pysam.AlignmentFile(cb_path, 'wb', header=pysam.AlignmentHeader.from_dict(hd_))
            cb_seen = defaultdict(int)
            cb_expect = {}
            for mi, m in enumerate(mols):
                ids = [F.id_from_name([x for x in frag if x is not None][0].query_name) for frag in m]
                mol_recs = [rec for i in ids for rec in byid[i]]
                t0 = truths[ids[0]]
                if mi % 3 == 0:
                    # the writer with a post-processing callback (the documented way to tag / filter the consensus reads of a molecule before
                    # they are written): the callback walks over the reads it is given
                    def _cb(reads, key=mi):
                        for cr in reads:
                            if cr is not None:
                                cr.set_tag('zc', key)
                                cb_seen[key] += 1
                    try:
                        m.write_pysam(cb_out, consensus=True, no_source_reads=True, consensus_name=f'cbmol{mi}x', consensus_read_callback=_cb)
                        cb_expect[mi] = (mol_recs, t0, len(ids))
                    except Exception as ex:
                        acc.violate('write_pysam-with-callback-raised:' + type(ex).__name__, f'write_pysam(consensus=True, consensus_read_callback=...) raised {ex!r} ({cfg})',
                                    {'config': cfg, 'molecule_fragments': ids})
                for max_n in (None, 50, 300):
                    wit = {'config': cfg, 'molecule_fragments': ids, 'max_N_span': max_n,
                           'reads': [(x['flag'], x['pos'], x['cigar'], x['seq']) for x in mol_recs][:12]}
                    try:
                        out = m.deduplicate_majority(f, f'cons_{mi}', max_N_span=max_n)
                    except Exception as ex:
                        acc.violate('deduplicate_majority-raised:' + type(ex).__name__, f'deduplicate_majority raised {ex!r} ({cfg})', wit)
                        break
                    acc.evals += 1
                    acc.count('ret:deduplicate_majority')
                    out = [x for x in out if x is not None]
                    if max_n is not None and len(out) > 1:
                        acc.count('split:max_N_span')
                    tags = {'SM': t0['sample'], 'RX': t0['umi'], 'DS': t0['site'], 'TF': len(ids)}
                    if cap:
                        m.write_tags()
                        src = [x for x in m.fragments[0] if x is not None][0]
                        tags['TF'] = src.get_tag('TF') if src.has_tag('TF') else None
                        if tags['TF'] is not None and tags['TF'] > len(ids):
                            acc.count('lib:molecules_over_their_cap')
                    if check_consensus_reads(acc, out, mol_recs, gen, t0['contig'], tags, f'api max_N_span={max_n}', wit):
                        acc.sigs.add(f"{case['i']}/{mi}/{max_n}")
                    if max_n is None and len(out) != 1:
                        acc.violate('consensus-read-count', f'{len(out)} consensus reads for one molecule without max_N_span', wit)
            cb_out.close()
            if cb_expect:
                written = defaultdict(list)
                with pysam.AlignmentFile(cb_path, check_sq=False) as fcb:
                    for a in fcb.fetch(until_eof=True):
                        if a.has_tag('zc'):
                            written[a.get_tag('zc')].append(a)
                        else:
                            acc.violate('consensus-written-without-callback-applied', f'record {a.query_name} was written but the callback never saw it ({cfg})', {'config': cfg})
                for mi, (mol_recs, t0, nfr) in cb_expect.items():
                    acc.count('ret:write_pysam_with_callback')
                    wit = {'config': cfg, 'molecule_index': mi, 'reads': [(x['flag'], x['pos'], x['cigar'], x['seq']) for x in mol_recs][:12]}
                    if len(written.get(mi, [])) != cb_seen.get(mi, 0) or not written.get(mi):
                        acc.violate('consensus-reads-handed-to-callback-not-written', f'the callback saw {cb_seen.get(mi, 0)} consensus reads of molecule {mi} but '
                                                                                      f'{len(written.get(mi, []))} were written ({cfg})', wit)
                        continue
                    if not cap:
                        check_consensus_reads(acc, written[mi], mol_recs, gen, t0['contig'], {'SM': t0['sample'], 'RX': t0['umi'], 'DS': t0['site'], 'TF': nfr},
                                              'write_pysam with callback', wit)
            # ---- history: a molecule that grows between two consensus requests (also touching the cached per-base properties in between)
            by_key = defaultdict(list)
            for t in truths.values():
                if t['valid'] and not t.get('single_end'):
                    by_key[t['key']].append(t['id'])
            grown = 0
            segs = defaultdict(dict)
            with pysam.AlignmentFile(bam) as f2:
                for a in f2.fetch(until_eof=True):
                    segs[F.id_from_name(a.query_name)]['r2' if a.is_read2 else 'r1'] = a
            for key, ids in by_key.items():
                if len(ids) < 2 or grown >= 6:
                    continue
                grown += 1
                from singlecellmultiomics.universalBamTagger.universalBamTagger import QueryNameFlagger
                qf = QueryNameFlagger()
                m = None
                wit = {'config': cfg, 'molecule_fragments': ids, 'history': 'consensus requested after every added fragment'}
                try:
                    for rid in ids:
                        reads = [segs[rid].get('r1'), segs[rid].get('r2')]
                        qf.digest(reads)
                        frag = fclass(reads, umi_hamming_distance=0)
                        if m is None:
                            m = mclass(frag, reference=reference)
                        else:
                            m._add_fragment(frag)
                        m.deduplicate_majority(f, 'grow')
                        _ = m.base_confidences
                    out = [x for x in m.deduplicate_majority(f, 'grown') if x is not None]
                except Exception as ex:
                    acc.violate('incremental-consensus-raised:' + type(ex).__name__, f'consensus on a growing molecule raised {ex!r}', wit)
                    continue
                acc.count('history:grown_molecules')
                mol_recs = [rec for i in ids for rec in byid[i]]
                t0 = truths[ids[0]]
                tags = {'SM': t0['sample'], 'RX': t0['umi'], 'DS': t0['site'], 'TF': len(ids)}
                before = len(acc.violations)
                check_consensus_reads(acc, out, mol_recs, gen, t0['contig'], tags, 'api grown molecule', wit)
                for v in acc.violations[before:]:
                    v['mech'] = 'stale-after-growth:' + v['mech']
        # ------------------------------------------------------------------ CLI
        if case['i'] % 2 == 0:
            no_src = r.random() < 0.5
            out = os.path.join(dd, 'cons', 'out.bam')
            os.makedirs(os.path.dirname(out))
            cmd = [bam, '-o', out, '-method', method, '-umi_hamming_distance', '0', '--multiprocess', '-tagthreads', '2', '--consensus', '-ref', fa, '-temp_folder', dd]
            if no_src:
                cmd.append('--no_source_reads')
            exc, txt = T.run_cli(cmd)
            if exc is not None:
                acc.violate('consensus-cli-raised:' + type(exc).__name__, f'--consensus run raised {exc!r} ({cfg}); {txt[-300:]}', {'config': cfg})
            else:
                orecs, hdr, info = T.load_records(out)
                # how consensus records are named is the tool's business: a source read is a record that carries the name of an input read
                src_names = set(x['name'] for x in recs) | set(F.restored_name(F.id_from_name(x['name']), case['i'] + 1) for x in recs)
                cons = [a for a in orecs if a.query_name not in src_names]
                src = [a for a in orecs if a.query_name in src_names]
                acc.count('cli:consensus_reads_checked', len(cons))
                if no_src and src:
                    acc.violate('source-reads-written-despite-no_source_reads', f'{len(src)} source reads in the output', {'config': cfg})
                if not no_src:
                    if len(src) != len(recs):
                        acc.violate('source-reads-not-conserved-with-consensus', f'{len(src)} source reads written, {len(recs)} in the input', {'config': cfg})
                # group consensus reads by (SM, DS, RX, strand) and compare with truth molecules
                groups = defaultdict(list)
                for t in truths.values():
                    if t['valid']:
                        groups[t['key']].append(t)
                for a in cons:
                    key = (a.get_tag('SM') if a.has_tag('SM') else None, a.reference_name, a.get_tag('DS') if a.has_tag('DS') else None, a.is_reverse,
                           a.get_tag('RX') if a.has_tag('RX') else None)
                    if key not in groups:
                        acc.violate('consensus-read-matches-no-molecule', f'cli: consensus read with (sample, contig, site, strand, umi)={key} matches no true molecule', {'config': cfg})
                        continue
                    ts = groups[key]
                    mol_recs = [rec for t in ts for rec in byid[t['id']]]
                    tags = {'SM': key[0], 'RX': key[4], 'DS': key[2], 'TF': len(ts)}
                    check_consensus_reads(acc, [a], mol_recs, gen, key[1], tags, 'cli', {'config': cfg, 'key': str(key)}) if False else None
                # per molecule: all its consensus reads together
                per = defaultdict(list)
                for a in cons:
                    per[(a.get_tag('SM') if a.has_tag('SM') else None, a.reference_name, a.get_tag('DS') if a.has_tag('DS') else None, a.is_reverse,
                         a.get_tag('RX') if a.has_tag('RX') else None)].append(a)
                for key, rs in per.items():
                    if key in groups:
                        ts = groups[key]
                        mol_recs = [rec for t in ts for rec in byid[t['id']]]
                        tags = {'SM': key[0], 'RX': key[4], 'DS': key[2], 'TF': len(ts)}
                        check_consensus_reads(acc, rs, mol_recs, gen, key[1], tags, 'cli', {'config': cfg, 'key': str(key)})
                if len(per) < len(groups):
                    acc.violate('molecule-without-consensus-read', f'cli: {len(groups)} molecules but consensus reads for {len(per)}', {'config': cfg})
        else:
            acc.count('cli:consensus_reads_checked', 0)
    acc.sample = {'config': cfg, 'molecules': len(set(t['key'] for t in truths.values()))}
    return acc
