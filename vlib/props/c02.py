"""C02 - demultiplexed records contain exactly the bases the protocol layout prescribes.

Monitor: FastqHandle.write of the target and reject sinks is wrapped while the real loader loop
(DemultiplexingStrategyLoader.demultiplex) runs on generated FASTQ files; every TaggedRecord list
that reaches the target sink is compared with the hand-written layout table (vlib/spec/layouts.py),
and the serialised files are read back and compared with the captured records.
"""
import os
import io
import contextlib
from vlib.common import Acc, rng, Scratch
from vlib.sim import fastq as fq
from vlib.spec import layouts as LY

PROPERTY = 'C02'
LEVEL = 'exploration'
RULE = ('per registered strategy (28) and hamming expansion k in {0,1}: generated libraries whose pairs carry a whitelisted / 1-mismatch / '
        'unknown barcode at the positions of the layout table, random inserts 0..150, qualities 0..51, N bases, paired or single end as the '
        'protocol needs; every accepted pair is compared with the table. Non-trivial = accepted pair with insert >= 1 on every mate; '
        'distinct = distinct (strategy, k, pair id).'
        ' Plus the real demux.py command line on chunked lanes / shuffled arguments / file lists, each output pair checked through the layout table.')
ASSUMPTIONS = ['vlib/spec/layouts.py is a hand-written specification (trusted)',
               'for content-dependent strategies (TCHIC, CHICTV, DamAndT family) the emitted stretch only has to be a contiguous, index-aligned slice starting at or after the insert start',
               'the emptied 10x whitelist is replaced by a generated one in a scratch barcode directory']
MIN_NONTRIVIAL = {'quick': 3000, 'thorough': 150000}
REQUIRED_MONITORS = ['hook:target.write', 'hook:reject.write', 'check:tags', 'check:emitted', 'check:serialised', 'cli:runs', 'cli:pairs_checked',
                     'input:filelist', 'input:chunked_lanes', 'input:last_line_without_newline', 'input:fastq_form:crlf', 'input:fastq_form:plusname', 'input:tchic_transcriptome_pairs_with_short_read_2']
SHARD_TIMEOUT = {'quick': 600, 'thorough': 3600}


def gen_cases(tier, seed):
    cases = []
    n = 150 if tier == 'quick' else 700
    reps = 1 if tier == 'quick' else 12
    for name in LY.ALL_NAMES:
        for k in (0, 1):
            for rep in range(reps):
                cases.append({'strategy': name, 'k': k, 'n': n, 'rep': rep, 'seed': seed})
    # the real command line on lanes / chunk files handed over in arbitrary order or as a file list
    for j in range(12 if tier == 'quick' else 300):
        cases.append({'kind': 'cli', 'j': j, 'seed': seed})
    return cases


_ENV = {}


def get_env(d, r, k):
    """barcode/index parsers + loader, built once per process and hamming distance"""
    from singlecellmultiomics.barcodeFileParser import barcodeFileParser as bfp
    from singlecellmultiomics.modularDemultiplexer.demultiplexingStrategyLoader import DemultiplexingStrategyLoader
    if k in _ENV:
        return _ENV[k]
    bdir = fq.build_barcode_dir(os.path.join(os.environ.get('SCMO_SCRATCH', '/tmp'), f'bc_{os.getpid()}_{k}'), rng('tenx'))
    with contextlib.redirect_stdout(io.StringIO()):
        bp = bfp.BarcodeParser(hammingDistanceExpansion=k, barcodeDirectory=bdir, lazyLoad=(fq.TENX,))
        ip = bfp.BarcodeParser(hammingDistanceExpansion=1, barcodeDirectory=os.path.join(fq.REPO_DEMUX, 'indices'))
        dmx = DemultiplexingStrategyLoader(barcodeParser=bp, indexParser=ip, indexFileAlias=fq.INDEX_ALIAS)
    wl = fq.load_whitelists(bdir)
    iwl = fq.load_whitelists(os.path.join(fq.REPO_DEMUX, 'indices'))
    _ENV[k] = (dmx, wl, iwl, bdir)
    return _ENV[k]


class SinkSpy:
    def __init__(self, acc, name):
        self.acc, self.name, self.calls = acc, name, []
        self.fail_every, self.attempts = None, 0

    def wrap(self, handle):
        orig = handle.write
        spy = self

        def write(records):
            spy.acc.count(f'hook:{spy.name}.write')
            spy.attempts += 1
            if spy.fail_every and spy.attempts % spy.fail_every == 0:
                import errno as _errno
                raise OSError(_errno.EIO, 'Input/output error (injected)')
            res = orig(records)       # a write that raises has written nothing: only completed calls are recorded
            spy.calls.append(records)
            return res
        handle.write = write
        return handle


def seg(reads, s):
    m, a, b = s
    if m >= len(reads):
        return '', ''
    return reads[m][1][a:b], reads[m][3][a:b]


def cat(reads, segs):
    return ''.join(seg(reads, s)[0] for s in segs), ''.join(seg(reads, s)[1] for s in segs)


def check_pair(acc, name, lay, k, wl, pair, recs, ctx):
    """recs: list of TaggedRecord for this pair"""
    reads = pair['reads']
    viol = []

    def bad(mech, msg):
        viol.append((mech, msg))
    tags0 = recs[0].tags
    acc.count('check:tags')
    # --- tags
    if lay['bc']:
        exp_bc, _ = cat(reads, lay['bc'])
        for rec in recs:
            if rec.tags.get('bc') != exp_bc:
                bad('raw-barcode-slice', f"bc={rec.tags.get('bc')} expected {exp_bc}")
            near = fq.nearest(wl.get(lay['alias'], []), exp_bc, k)
            if near is None:
                bad('accepted-without-unique-nearest-barcode', f'raw barcode {exp_bc} has no unique whitelist neighbour within {k}')
            else:
                if rec.tags.get('BC') != near[1] or str(rec.tags.get('bi')) != str(near[0]):
                    bad('corrected-barcode-or-index', f"BC={rec.tags.get('BC')} bi={rec.tags.get('bi')} expected {near[1]} / {near[0]}")
    if lay['umi']:
        exp_umi, exp_uq = cat(reads, lay['umi'])
        for rec in recs:
            if rec.tags.get('RX') != exp_umi:
                bad('umi-slice', f"RX={rec.tags.get('RX')} expected {exp_umi}")
            if rec.tags.get('RQ') != fq.hsq(exp_uq):
                bad('umi-quality-slice', f"RQ={rec.tags.get('RQ')} expected {fq.hsq(exp_uq)} (raw quals {exp_uq!r})")
    else:
        if 'RX' in tags0 and name not in ('ILLU',):
            bad('umi-invented', f"RX={tags0.get('RX')} but the layout has no UMI")
    if lay['rs']:
        exp_rs, _ = seg(reads, lay['rs'])
        for rec in recs:
            if rec.tags.get('rS') != exp_rs:
                bad('random-primer-slice', f"rS={rec.tags.get('rS')} expected {exp_rs} (mate {lay['rs'][0]} [{lay['rs'][1]}:{lay['rs'][2]}])")
    elif 'rS' in tags0:
        bad('random-primer-invented', f"rS={tags0.get('rS')} but the layout has no random primer")
    if lay['lh']:
        exp_lh, exp_lq = seg(reads, lay['lh'])
        for rec in recs[:1] if lay['ends'] == 'se' else recs:
            if rec.tags.get('lh') != exp_lh:
                bad('ligation-slice', f"lh={rec.tags.get('lh')} expected {exp_lh}")
            if rec.tags.get('lq') != fq.hsq(exp_lq):
                bad('ligation-quality-slice', f"lq={rec.tags.get('lq')} expected {fq.hsq(exp_lq)}")
    for tag, s in lay['extra'].items():
        e, _ = seg(reads, s)
        for rec in recs:
            if rec.tags.get(tag) != e:
                bad('extra-tag-slice', f'{tag}={rec.tags.get(tag)} expected {e}')
    if lay['mx'] is not None:
        for rec in recs:
            if rec.tags.get('MX') != lay['mx']:
                bad('strategy-tag', f"MX={rec.tags.get('MX')} expected {lay['mx']}")
    # --- emitted stretch
    acc.count('check:emitted')
    nontrivial = True
    if len(recs) != len(reads):
        bad('mate-count', f'{len(recs)} records for {len(reads)} input mates')
    for m, rec in enumerate(recs[:len(reads)]):
        raw_s, raw_q = reads[m][1], reads[m][3]
        es, eq = rec.sequence, rec.qualities
        o = lay['insert'][m]
        if len(es) != len(eq):
            bad('emitted-seq-qual-length', f'mate {m + 1}: emitted sequence {len(es)} vs qualities {len(eq)}')
            continue
        if len(es) < 1:
            nontrivial = False
        if lay['fixed']:
            if es != raw_s[o:] or eq != raw_q[o:]:
                # where does it come from?
                other = reads[1 - m][1] if len(reads) > 1 else ''
                if len(es) >= 12 and es in other and es not in raw_s:
                    bad('emitted-from-wrong-mate', f'mate {m + 1}: emitted stretch is found in the other mate only')
                elif es == raw_s[o:] and eq != raw_q[o:]:
                    bad('qualities-not-index-aligned', f'mate {m + 1}: bases ok, qualities differ from raw[{o}:]')
                else:
                    pos = raw_s.find(es) if len(es) >= 8 else None
                    bad('insert-start', f'mate {m + 1}: emitted {es[:20]!r}.. (len {len(es)}) expected raw[{o}:] {raw_s[o:o + 20]!r}.. (len {len(raw_s) - o}); found at {pos}')
        else:
            ok = False
            for oo in range(o, max(o, len(raw_s) - len(es)) + 1):
                if raw_s[oo:oo + len(es)] == es and raw_q[oo:oo + len(es)] == eq:
                    ok = True
                    break
            if not ok and not (len(es) == 0):
                bad('emitted-not-a-contiguous-aligned-slice', f'mate {m + 1}: emitted {es[:20]!r}.. len {len(es)} is no index-aligned slice of raw at offset >= {o}')
    for mech, msg in viol[:3]:
        acc.violate(f'{mech}', f'{name} k={k} pair id {pair["id"]}: {msg}',
                    {'strategy': name, 'k': k, 'reads': reads, 'tags': {kk: str(v) for kk, v in tags0.items()},
                     'emitted': [(r_.sequence, r_.qualities) for r_ in recs], **ctx})
    return nontrivial and not viol


def run_cli_case(case):
    """The real demux.py command line on a library delivered in lanes and chunk files, handed over in arbitrary order / as a file list: every
    demultiplexed record pair is compared with the input pair of the same cluster through the layout table."""
    import subprocess
    from types import SimpleNamespace
    from vlib.common import PY
    from vlib.props import c01
    acc = Acc()
    r = rng(case['seed'], 'C02', 'cli', case['j'])
    name = r.choice([n for n in LY.LAYOUTS if n not in ('ILLU', 'CHROMC16U12') and LY.ends_of(n) != 'se'])
    k = r.choice([0, 1])
    with Scratch('c02cli') as d:
        wl = fq.load_whitelists(os.path.join(fq.REPO_DEMUX, 'barcodes'))
        iwl = fq.load_whitelists(os.path.join(fq.REPO_DEMUX, 'indices'))
        lib, files, all_pairs, files_on_disk, input_form, lanes = c01.cli_build_inputs(r, d, name, False, wl, iwl, 8800 + case['j'], acc,
                                                                                        input_form=['filelist', 'shuffled', 'duplicate', 'filelist', 'sorted', 'shuffled'][case['j'] % 6])
        out = os.path.join(d, 'out')
        drv = os.path.join(d, 'drv.py')
        with open(drv, 'w') as f:
            f.write(c01.CLI_DRIVER)
        p = subprocess.run([PY, drv] + files + ['-use', name, '--y', '-o', out, '-hd', str(k)], capture_output=True, text=True, timeout=600, cwd=d)
        acc.count('cli:runs')
        cfg = {'cli': True, 'strategy': name, 'k': k, 'input_form': input_form, 'chunk_files': len(files_on_disk), 'lanes': lanes}
        if p.returncode != 0:
            raise RuntimeError(f'demux.py exited {p.returncode}: {p.stderr[-300:]} ({cfg})')
        disk = []
        for m in ('R1', 'R2'):
            recs, err = fq.read_fastq_strict(os.path.join(out, lib, f'demultiplexed{m}.fastq.gz'))
            if err:
                acc.violate('serialised-output-malformed', f'cli {name}: demultiplexed{m}: {err} ({cfg})', {})
                return acc
            disk.append(recs)
        byid = {x['id']: x for x in all_pairs}
        lay = LY.LAYOUTS[name]
        for idx in range(min(len(disk[0]), len(disk[1]))):
            recs = [SimpleNamespace(tags=fq.parse_out_header(disk[m][idx][0]), sequence=disk[m][idx][1], qualities=disk[m][idx][3]) for m in (0, 1)]
            rid = fq.record_id(disk[0][idx][0])
            if rid is None or rid[0] not in byid:
                acc.violate('id-lost', f'cli {name}: demultiplexed record {idx} cannot be traced to an input pair ({cfg})', {})
                continue
            acc.evals += 1
            acc.count('cli:pairs_checked')
            pair = byid[rid[0]]
            if check_pair(acc, name, lay, k, wl, pair, recs, {'planted': pair['planted'], 'kind': pair['kind'], 'config': cfg}):
                acc.sigs.add(f"cli/{name}/{case['j']}/{rid[0]}")
        if len(disk[0]) != len(disk[1]):
            acc.violate('mate-count', f'cli {name}: {len(disk[0])} R1 records, {len(disk[1])} R2 records ({cfg})', {})
        acc.sample = {'config': cfg, 'pairs': len(all_pairs), 'accepted': len(disk[0])}
    return acc


def run_case(case):
    if case.get('kind') == 'cli':
        return run_cli_case(case)
    from singlecellmultiomics.fastqProcessing.fastqHandle import FastqHandle
    acc = Acc()
    name, k = case['strategy'], case['k']
    r = rng(case['seed'], 'C02', name, k, case['rep'])
    with Scratch('c02') as d:
        dmx, wl, iwl, bdir = get_env(d, r, k)
        strategy = dmx.getSelectedStrategiesFromStringList([name], verbose=False)[0]
        ends = LY.ends_of(name)
        single = ends == 'se' or (ends == 'any' and r.random() < 0.25)
        pairs = []
        case_id = 1000 + case['rep']
        for i in range(case['n']):
            lay = LY.layout_for_generation(name, r)
            kind = r.choice(['good'] * 6 + ['mm1', 'mm1', 'unknown', 'mm2'])
            index_seq = r.choice([b for b, _ in iwl[fq.INDEX_ALIAS]]) if r.random() < 0.9 else str(r.randint(1, 48))
            hdr = 'illumina' if r.random() < 0.85 else 'scmo'
            pairs.append(fq.make_pair(r, lay, wl.get(lay['alias'], []), kind, i + 1, case_id, hdr_kind=hdr, index_seq=index_seq,
                                      qmax=51, p_n=0.02, single_end=single, needs=lay.get('needs')))
            pairs[-1]['lay'] = lay
            if name == 'TCHIC' and kind == 'good' and not single and pairs[-1].get('planted') and i % 3 == 0:
                # a transcriptome read pair in the mixed library: read 1 carries, behind the scCHIC barcode, the transcript UMI, the CEL-Seq2 barcode
                # of the same cell and the poly-T; read 2 is the (possibly very short, possibly empty) transcript end running into the poly-A tail
                idx_of = dict(wl.get(lay['alias'], []))
                cs2 = {ix: bc for bc, ix in wl.get('celseq2', [])}
                cell_ix = idx_of.get(pairs[-1]['planted'])
                if cell_ix in cs2:
                    (h1, s1, p1, q1), (h2, s2, p2, q2) = pairs[-1]['reads']
                    s1 = s1[:12] + fq.rand_seq(r, r.randint(0, 4)) + fq.rand_seq(r, 6) + cs2[cell_ix] + 'T' * r.randint(6, 12) + fq.rand_seq(r, r.randint(0, 20))
                    s2 = r.choice(['', 'T', 'TC', 'CT', 'TCG', fq.rand_seq(r, r.randint(3, 30))]) + r.choice(['', 'GA', 'GAGAGG', 'AGGA']) + 'A' * r.randint(10, 25) + fq.rand_seq(r, r.randint(0, 8))
                    pairs[-1]['reads'] = [(h1, s1, p1, fq.rand_qual(r, len(s1), 41)), (h2, s2, p2, fq.rand_qual(r, len(s2), 41))]
                    acc.count('input:tchic_transcriptome_pairs_with_short_read_2')
        files = [os.path.join(d, 'in_R1.fastq.gz')] + ([] if single else [os.path.join(d, 'in_R2.fastq.gz')])
        unterminated = r.random() < 0.3
        acc.count('input:last_line_without_newline', 1 if unterminated else 0)
        form = ['plain', 'plain', 'crlf', 'plusname'][(__import__('zlib').crc32(name.encode()) + k + case['rep']) % 4]
        acc.count('input:fastq_form:' + form)
        fq.write_fastq(files, pairs, final_newline=not unterminated, form=form)
        tspy, rspy = SinkSpy(acc, 'target'), SinkSpy(acc, 'reject')
        target = tspy.wrap(FastqHandle(os.path.join(d, 'demultiplexed'), not single))
        reject = rspy.wrap(FastqHandle(os.path.join(d, 'rejects'), not single))
        out = io.StringIO()
        with contextlib.redirect_stdout(out):
            processed, yields = dmx.demultiplex(files, strategies=[strategy], targetFile=target, rejectHandle=reject, library='LIBC02')
        target.close()
        reject.close()
        byid = {p['id']: p for p in pairs}
        accepted_ids = []
        for recs in tspy.calls:
            acc.evals += 1
            if name == 'ILLU':
                # bulk: strings; whole reads, compare with raw
                rid = fq.record_id(recs[0].split('\n')[0])
                pair = byid[rid[0]]
                for m, s in enumerate(recs):
                    lines = s.split('\n')
                    if lines[1] != pair['reads'][m][1] or lines[3] != pair['reads'][m][3]:
                        acc.violate('insert-start', f'ILLU pair {rid}: emitted differs from the raw read', {'reads': pair['reads'], 'got': lines})
                acc.count('check:tags')
                acc.count('check:emitted')
                accepted_ids.append(rid[0])
                if all(len(x[1]) for x in pair['reads']):
                    acc.sigs.add(f'{name}/{k}/{case["rep"]}/{rid[0]}')
                continue
            t = recs[0].tags
            try:
                rid = int(t['CX'])
            except Exception:
                acc.violate('id-lost', f'{name}: accepted record without CX: {t}', {})
                continue
            pair = byid[rid]
            accepted_ids.append(rid)
            if name in LY.LAYOUTS:
                lay = LY.LAYOUTS[name]
            else:
                alts = LY.COMPOSITES[name]['alternatives']
                dt = t.get('dt')
                cand = [a for a in alts if a['dt'] == dt] or ([alts[0]] if dt == 'Ambiguous' else [])
                if not cand:
                    acc.violate('composite-arm-unknown', f'{name}: dt={dt} matches no arm', {'tags': {kk: str(v) for kk, v in t.items()}})
                    continue
                lay = cand[0]
            if check_pair(acc, name, lay, k, wl, pair, recs, {'planted': pair['planted'], 'kind': pair['kind']}):
                acc.sigs.add(f'{name}/{k}/{case["rep"]}/{rid}')
        # good pairs that were rejected: the reason names the raw barcode the strategy extracted
        acc_set = set(accepted_ids)
        good_rejected = 0
        for p in pairs:
            if p['kind'] == 'good' and p['id'] not in acc_set and p['planted'] is not None:
                good_rejected += 1
        n_good = sum(1 for p in pairs if p['kind'] == 'good' and p['planted'] is not None)
        for recs in rspy.calls:
            h = recs[0].split('\n')[0] if isinstance(recs[0], str) else ''
            rid = fq.record_id(h)
            if rid is None or rid[0] not in byid:
                continue
            p = byid[rid[0]]
            if p['kind'] != 'good' or p['planted'] is None:
                continue
            t = fq.parse_out_header(h)
            rr = t.get('RR', '')
            if rr.startswith('bc:') and '_not_matching_' in rr:
                raw = rr[3:].split('_not_matching_')[0]
                exp, _ = cat(p['reads'], p['lay']['bc'])
                if raw != exp and name in LY.LAYOUTS:
                    acc.violate('raw-barcode-slice', f'{name} k={k}: pair {rid[0]} with whitelisted barcode {exp} planted at the layout position was rejected '
                                                      f'because the strategy extracted {raw}', {'reads': p['reads'], 'reason': rr})
        # a whitelisted pair with known index must be accepted by a non-composite fixed strategy
        if name in LY.LAYOUTS and name not in ('CHICTV', 'TCHIC') and n_good >= 20 and good_rejected > 0.5 * n_good:
            acc.violate('whitelisted-pairs-rejected', f'{name} k={k}: {good_rejected} of {n_good} pairs carrying a whitelisted barcode at the layout position were rejected',
                        {'example': next(p['reads'] for p in pairs if p['kind'] == 'good' and p['id'] not in acc_set)})
        # --- serialised output equals the captured records
        if name != 'ILLU':
            for m, suffix in enumerate(['R1'] + ([] if single else ['R2'])):
                recs_disk, err = fq.read_fastq_strict(os.path.join(d, f'demultiplexed{suffix}.fastq.gz'))
                acc.count('check:serialised')
                if err:
                    acc.violate('serialised-output-malformed', f'{name}: demultiplexed{suffix}: {err}', {})
                    continue
                cap = [(c[m].sequence, c[m].qualities) for c in tspy.calls if len(c) > m]
                disk = [(x[1], x[3]) for x in recs_disk]
                if cap != disk:
                    acc.violate('serialised-differs-from-record', f'{name}: demultiplexed{suffix} on disk differs from the records passed to the writer '
                                                                 f'({len(disk)} vs {len(cap)})', {})
        else:
            acc.count('check:serialised')
        acc.sample = {'strategy': name, 'k': k, 'single_end': single, 'pairs': len(pairs), 'accepted': len(accepted_ids),
                      'rejected': len(rspy.calls), 'good_pairs_rejected': good_rejected,
                      'example_pair': pairs[0]['reads'], 'example_kind': pairs[0]['kind']}
    return acc
