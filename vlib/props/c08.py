"""C08 - parallel tagging is equivalent to serial tagging.

Monitors: the serial output of the real command line; the outputs of (i) the command line with --multiprocess
(1..8 workers, seeded delays per job) and (ii) the region-tiling API tag_multiome_multi_processing(
one_contig_per_process=False) over grids of bp_per_segment / bp_per_job / fragment_size with and without a pool
(its arguments are captured from the real CLI by a spy, then only the tiling parameters are changed);
one event per job from inside the workers (tasks, records written with their DS). Oracle: multiset equality of
(read id, mate, flag, position, every tag except mi / ix) and exactly-one-owner per read id whose bin contains DS.
"""
import os
import io
import contextlib
from collections import Counter, defaultdict
from vlib.common import Acc, rng, Scratch
from vlib.sim import frags as F
from vlib.sim.bam import write_bam
from vlib import tagger as T

PROPERTY = 'C08'
LEVEL = 'exploration'
RULE = ('simulated NLA / CHIC libraries on 1-4 contigs with molecules whose sites sit at bin edges -1/0/+1 of the tiling, several cells, '
        'unmapped pairs; compared runs: serial CLI vs --multiprocess (1..8 workers, seeded worker delays) vs tiling API with '
        'bp_per_segment in {500..20000}, bp_per_job in {1..50000}, fragment_size >= longest simulated fragment, pool on/off. '
        'Non-trivial = library with a true molecule of >=2 fragments whose site is within 1 bp of a bin edge of the run; '
        'distinct = distinct (library seed, run configuration).'
        ' Plus contig names containing each other with runs restricted by -contig, tiles of 100 / 150 bp (smaller than a fragment), an independent ejection interval per run, copies of one molecule between 60 and 900 bp long.')
ASSUMPTIONS = ['fetch margins (fragment_size) are at least the longest simulated fragment (precondition of the property)',
               'per-run molecule identifiers (mi), the per-job index (ix) and the @PG header may differ',
               'worker schedules are sampled (distinct completion orders observed are counted)']
MIN_NONTRIVIAL = {'quick': 40, 'thorough': 2500}
REQUIRED_MONITORS = ['run:tiling_with_jobs_smaller_than_tiles', 'run:serial', 'run:restricted_to_one_contig', 'lib:contig_with_placed_unmapped_pairs_only', 'run:contig_per_process', 'run:tiling_pool', 'run:tiling_nopool', 'records:compared', 'jobs:observed',
                     'ownership:records_checked', 'edge:sites_on_bin_edges', 'lib:fragments_up_to_900bp', 'lib:hard_clipped_fragments', 'run:tiling_with_job_bed_file', 'run:one_contig_skipped', 'lib:empty_contig_between_populated_ones', 'lib:contig_name_with_separator_characters', 'edge:molecules_on_the_first_or_last_bases_of_a_contig', 'history:earlier_library_at_the_same_path_tagged_in_this_process']
SHARD_TIMEOUT = {'quick': 900, 'thorough': 7200}
IGNORE_TAGS = {'mi', 'ix'}


def gen_cases(tier, seed):
    n = 64 if tier == 'quick' else 1600
    return [{'i': i, 'seed': seed} for i in range(n)]


def record_sig(a):
    tags = tuple(sorted((k, str(v)) for k, v in a.get_tags() if k not in IGNORE_TAGS))
    return (F.id_from_name(a.query_name), 2 if a.is_read2 else 1, a.flag, a.reference_name, a.reference_start, tags)


def run_case(case):
    acc = Acc()
    r = rng(case['seed'], 'C08', case['i'])
    method = r.choice(['nla', 'nla', 'chic'])
    seg = r.choice([100, 150, 500, 1000, 2500, 20000])    # tiles smaller than a fragment too
    # contig names that contain each other (chr1 / chr10, chr2 / chr21) as real references have
    contigs = [(nm, r.choice([4000, 9000, 21000])) for nm in ['chr1', 'chr10', 'chr2', 'chr21'][:r.randint(1, 4)]]
    if case['i'] % 4 == 2:
        # ... and names with the characters region strings and file names are made of
        contigs[-1] = (r.choice(['HLA-A*01:01', 'chr1_KI270706v1_random', 'gi|9626243|ref|NC_001416.1|', 'NC_000001.11']), contigs[-1][1])
        acc.count('lib:contig_name_with_separator_characters')
    if seg < 500:
        # hundreds of tiny tiles per contig are slow (one tagging task each): keep the genome small for them
        contigs = [(nm, min(ln, 4000)) for nm, ln in contigs[:2]]
    # copies of one molecule differ in length by up to a few hundred bases; a third of the libraries go up to 900 (the command line fetches
    # 1000 bp margins for these methods)
    max_frag = 300 if case['i'] % 3 else 900
    acc.count('lib:fragments_up_to_900bp', 1 if max_frag == 900 else 0)
    # a short scaffold that will hold nothing but pairs flagged unmapped which keep a coordinate (placed but unmapped)
    lonely = None
    if r.random() < 0.4:
        lonely = ('scaffold_7', r.choice([1500, 6000]))
        contigs = contigs + [lonely]
    if case['i'] % 3 == 1 and len(contigs) > 1:
        # a contig without any read between contigs that carry reads (an empty scaffold / decoy in the middle of the header)
        contigs.insert(r.randint(1, len(contigs) - 1), ('chrEmpty', r.choice([3000, 9000])))
        acc.count('lib:empty_contig_between_populated_ones')
    # sites at bin edges of the tiling (-1/0/+1) and elsewhere
    gen = F.Genome(r, contigs)
    recs, truths = [], {}
    rid = 1
    edge_sites = 0
    for name, ln in contigs:
        if (name, ln) == lonely or name == 'chrEmpty':
            continue
        for _ in range(r.randint(2, 7)):
            if r.random() < 0.6:
                k = r.randint(1, max(1, ln // seg - 1))
                pos = k * seg + r.choice([-1, 0, 1])
                if method == 'chic':
                    pos += r.choice([-1, 0, 1])  # the CHIC site is ligated base -+1
            else:
                pos = r.randrange(450, ln - 450)
            if not (450 <= pos < ln - 450):
                continue
            if method == 'nla':
                if 'CATG' in gen.get(name)[pos - 8:pos + 12]:
                    continue
                gen.plant(name, pos)
            for _ in range(r.randint(1, 3)):
                umi = F.rand_dna(r, 3)
                cell = r.randint(1, 3)
                reverse = r.random() < 0.5
                for _ in range(r.randint(1, 4)):
                    fr, tr = F.make_fragment(gen, r, rid, case['i'] + 1, method, cell, name, pos, reverse, umi, r.randint(60, max_frag) if r.random() < 0.7 else r.choice([60, max_frag]),
                                             clip=r.choice([0, 0, 3]), motif_ok=not (method == 'nla' and r.random() < 0.12))
                    if fr is None:
                        continue
                    if r.random() < 0.1 and F.add_hard_clips(r, fr):
                        acc.count('lib:hard_clipped_fragments')
                    recs.extend(fr)
                    truths[rid] = tr
                    if tr['site'] % seg in (0, 1, seg - 1):
                        edge_sites += 1
                    rid += 1
    # molecules whose cut site lies on the very first / last bases of a contig (the last bin of a tiling ends there)
    for name, ln in contigs:
        if (name, ln) == lonely or name == 'chrEmpty' or r.random() < 0.4:
            continue
        for pos, reverse in ([(0, False), (ln - 4, True)] if method == 'nla' else [(1, False), (ln - 2, True), (ln - 1, True)]):
            if method == 'nla':
                gen.plant(name, pos)
            umi, cell = F.rand_dna(r, 3), r.randint(1, 3)
            for _ in range(r.randint(1, 3)):
                fr, tr = F.make_fragment(gen, r, rid, case['i'] + 1, method, cell, name, pos, reverse, umi, r.randint(60, 300))
                if fr is None:
                    continue
                recs.extend(fr)
                truths[rid] = tr
                rid += 1
                acc.count('edge:molecules_on_the_first_or_last_bases_of_a_contig')
    for _ in range(r.choice([0, 2, 6])):
        recs.extend(F.unmapped_pair(r, rid, case['i'] + 1, r.randint(1, 3), F.rand_dna(r, 3),
                                    mx=F.MX_NLA if method == 'nla' else F.MX_CHIC_TRIMMED))
        truths[rid] = {'id': rid, 'valid': False, 'key': None, 'site': None}
        rid += 1
    if lonely is not None or r.random() < 0.3:
        for (name, ln) in ([lonely] if lonely else []) + [contigs[0]]:
            for _ in range(r.randint(1, 3)):
                recs.extend(F.unmapped_pair(r, rid, case['i'] + 1, r.randint(1, 3), F.rand_dna(r, 3), mx=F.MX_NLA if method == 'nla' else F.MX_CHIC_TRIMMED,
                                            place=(gen.tid(name), r.randrange(0, ln - 40))))
                truths[rid] = {'id': rid, 'valid': False, 'key': None, 'site': None}
                rid += 1
        acc.count('lib:placed_unmapped_pairs')
        if lonely:
            acc.count('lib:contig_with_placed_unmapped_pairs_only')
    if not recs:
        return acc
    acc.count('edge:sites_on_bin_edges', edge_sites)
    cfg0 = {'method': method, 'contigs': contigs, 'fragments': len(truths), 'tile': seg}
    groups = defaultdict(list)
    for t in truths.values():
        if t.get('key'):
            groups[t['key']].append(t)
    edge_multi = any(len(g) >= 2 and g[0]['site'] % seg in (0, 1, seg - 1) for g in groups.values())
    with Scratch('c08') as dd:
        ties = r if case['i'] % 2 else None
        acc.count('input:ties_in_random_order', 1 if ties else 0)
        bam = write_bam(os.path.join(dd, 'in.bam'), gen.refs, recs, tie_rng=ties)
        # ---------------------------------------------------------------- serial
        out_s = os.path.join(dd, 'serial.bam')
        # a third of the cases restrict the run to one contig (-contig): every way of running must restrict itself to the same records
        restrict = ['-contig', r.choice(contigs)[0]] if r.random() < 0.35 else []
        if not restrict and case['i'] % 4 == 1:
            # ... or leave one contig out (-skip_contig) - preferably one that carries reads and is followed by more contigs with reads
            restrict = ['-skip_contig', r.choice(contigs[:-1] or contigs)[0]]
            acc.count('run:one_contig_skipped')
        cfg0['restricted_to'] = ' '.join(restrict) if restrict else None
        acc.count('run:restricted_to_one_contig', 1 if restrict and restrict[0] == '-contig' else 0)
        # how often the molecule buffer is checked for ejection is a tuning constant; every run draws its own value (the serial run too)
        ej = lambda: r.choice([None, 0, 1, 4, 20])
        exc, txt = T.run_cli([bam, '-o', out_s, '-method', method, '-umi_hamming_distance', '1'] + restrict, eject_every=ej())
        acc.count('run:serial')
        if exc is not None:
            acc.violate('serial-run-raised', f'serial tagger raised {exc!r} ({cfg0})', {'config': cfg0})
            return acc
        srecs, _, _ = T.load_records(out_s)
        serial = Counter(record_sig(a) for a in srecs)
        wit0 = {'library': cfg0, 'truth_head': [(t['id'], t.get('key')) for t in list(truths.values())[:20]]}

        def compare(path, label, cfg, evs):
            acc.evals += 1
            precs, _, info = T.load_records(path)
            if info['error']:
                acc.violate('parallel-output-unreadable', f'{label}: {info["error"]} ({cfg})', dict(wit0, run=cfg))
                return
            par = Counter(record_sig(a) for a in precs)
            acc.count('records:compared', sum(serial.values()))
            if par != serial:
                miss = serial - par
                extra = par - serial
                miss_ids = set(k[:2] for k in miss)
                extra_ids = set(k[:2] for k in extra)
                both = miss_ids & extra_ids
                if both:
                    # same record, different flags/tags: find which
                    k1 = next(k for k in miss if k[:2] in both)
                    k2 = next(k for k in extra if k[:2] == k1[:2])
                    diff = sorted(set(dict(k1[5]).items()) ^ set(dict(k2[5]).items()))
                    what = 'flag' if k1[2] != k2[2] else ('tags:' + ','.join(sorted(set(t for t, _ in diff))))
                    acc.violate('parallel-tags-differ:' + what, f'{label}: read {k1[:2]} serial flag {k1[2]} vs parallel {k2[2]}; differing tags {diff[:6]} ({cfg})',
                                dict(wit0, run=cfg, serial=str(k1), parallel=str(k2)))
                elif miss and not extra:
                    ids = sorted(miss_ids)
                    siteless = all(not any(t == 'DS' for t, _ in k[5]) for k in miss)
                    tiled = 'tiling' in label
                    mech = 'tiling-skips-siteless-molecule' if (tiled and siteless) else ('parallel-loses-records:' + ('tiling' if tiled else 'contig'))
                    acc.violate(mech, f'{label}: {sum(miss.values())} records only in the serial output, e.g. {ids[:5]} (sites '
                                      f'{[truths[i[0]].get("site") for i in ids[:5]]}) ({cfg})', dict(wit0, run=cfg, jobs=[e["tasks"] for e in evs][:12]))
                elif extra and not miss:
                    acc.violate('parallel-duplicates-records', f'{label}: {sum(extra.values())} records more than serial, e.g. {sorted(extra_ids)[:5]} ({cfg})',
                                dict(wit0, run=cfg, jobs=[e["tasks"] for e in evs][:12]))
                else:
                    acc.violate('parallel-loses-and-duplicates', f'{label}: {sum(miss.values())} missing, {sum(extra.values())} extra ({cfg})', dict(wit0, run=cfg))
            # ---- ownership
            owner = defaultdict(set)
            for ji, e in enumerate(evs):
                for (qn, mate, ds, contig) in e.get('records', []):
                    owner[(F.id_from_name(qn), mate)].add(ji)
                    acc.count('ownership:records_checked')
                    if ds is not None and 'tiling' in label:
                        # a cut site just outside the contig (a read flush with its first / last base) belongs to the first / last bin
                        ds_own = min(max(ds, 0), dict(gen.refs)[contig] - 1)
                        ok = any(t[0] == contig and t[1] is not None and t[1] <= ds_own < t[2] for t in e['tasks'])
                        if not ok:
                            acc.violate('record-written-by-job-not-owning-its-site', f'{label}: read {qn} DS={ds} on {contig} written by job with tasks {e["tasks"][:4]} ({cfg})',
                                        dict(wit0, run=cfg))
            multi = [k for k, v in owner.items() if len(v) > 1]
            if multi:
                acc.violate('record-written-by-two-jobs', f'{label}: reads {multi[:4]} were written by more than one job ({cfg})', dict(wit0, run=cfg))
            acc.count('jobs:observed', len(evs))
            if len(evs) > 1:
                done_order = tuple(e['job'] for e in sorted(evs, key=lambda e: e['done']))
                start_order = tuple(e['job'] for e in sorted(evs, key=lambda e: e['start']))
                acc.count('jobs:finished_out_of_start_order' if done_order != start_order else 'jobs:finished_in_start_order')
                acc.count('jobs:distinct_worker_pids', len(set(e['pid'] for e in evs)))
            if edge_multi:
                acc.sigs.add(f"{case['i']}/{label}/{sorted(cfg.items(), key=str)}")

        # ---------------------------------------------------------------- (i) contig per process through the CLI
        k = r.choice([1, 2, 3, 4, 8])
        out_p = os.path.join(dd, 'par', 'p.bam')
        os.makedirs(os.path.dirname(out_p))
        ev1 = os.path.join(dd, 'ev1.jsonl')
        cfg = {'mode': 'contig_per_process', 'workers': k, 'delay_seed': case['i']}
        captured = {}
        exc, txt = T.run_cli([bam, '-o', out_p, '-method', method, '-umi_hamming_distance', '1', '--multiprocess', '-tagthreads', str(k), '-temp_folder', dd] + restrict,
                             event_file=ev1, delay_seed=case['i'], eject_every=ej())
        acc.count('run:contig_per_process')
        if exc is not None:
            acc.violate('parallel-run-raised', f'--multiprocess raised {exc!r} ({cfg})', dict(wit0, run=cfg))
        else:
            compare(out_p, 'contig_per_process', cfg, T.read_events(ev1))
        # ---------------------------------------------------------------- (ii) tiling API
        from singlecellmultiomics.universalBamTagger import bamtagmultiome as btm
        real = btm.tag_multiome_multi_processing

        def spy(**kw):
            captured.update(kw)
        if case['i'] % 4 == 1:
            # history: an earlier version of the library (half of the fragments) lived at the very same path and was tagged by the tiling code
            # inside this process; it is gone now - nothing of it may come back
            os.rename(bam, bam + '.keep')
            os.rename(bam + '.bai', bam + '.keep.bai')
            write_bam(bam, gen.refs, [x for x in recs if F.id_from_name(x['name']) % 2 == 0])
            cap0 = {}
            btm.tag_multiome_multi_processing = lambda **kw: cap0.update(kw)
            try:
                with contextlib.redirect_stdout(io.StringIO()), contextlib.redirect_stderr(io.StringIO()):
                    btm.run_multiome_tagging_cmd([bam, '-o', os.path.join(dd, 'unused0.bam'), '-method', method, '-umi_hamming_distance', '1', '--multiprocess',
                                                  '-temp_folder', dd])
            finally:
                btm.tag_multiome_multi_processing = real
            kw0 = dict(cap0)
            kw0['molecule_iterator_args'] = dict(cap0['molecule_iterator_args'])
            os.makedirs(os.path.join(dd, 'prelude'))
            kw0.update(out_bam_path=os.path.join(dd, 'prelude', 'old.bam'), one_contig_per_process=False, bp_per_segment=max(seg, 1000), bp_per_job=5000,
                       fragment_size=1000, use_pool=False, n_threads=1, temp_folder_root=dd)
            try:
                with contextlib.redirect_stdout(io.StringIO()), contextlib.redirect_stderr(io.StringIO()):
                    btm.tag_multiome_multi_processing(**kw0)
            except Exception:
                pass
            T.reap_pools()
            for fn_ in (bam, bam + '.bai'):
                if os.path.exists(fn_):
                    os.remove(fn_)
            os.rename(bam + '.keep', bam)
            os.rename(bam + '.keep.bai', bam + '.bai')
            acc.count('history:earlier_library_at_the_same_path_tagged_in_this_process')
        btm.tag_multiome_multi_processing = spy
        try:
            with contextlib.redirect_stdout(io.StringIO()), contextlib.redirect_stderr(io.StringIO()):
                btm.run_multiome_tagging_cmd([bam, '-o', os.path.join(dd, 'unused.bam'), '-method', method, '-umi_hamming_distance', '1', '--multiprocess',
                                              '-temp_folder', dd] + restrict)
        finally:
            btm.tag_multiome_multi_processing = real
        for ti in range(2):
            use_pool = (ti == 0)
            cfg = {'mode': 'tiling', 'bp_per_segment': seg, 'bp_per_job': r.choice([1, seg, 3 * seg, 50000]),
                   'fragment_size': r.choice([max_frag + 50, 1000, 5000]), 'use_pool': use_pool, 'workers': r.choice([1, 2, 4]), 'delay_seed': case['i'] + ti}
            if (case['i'] + ti) % 4 == 2:
                # jobs smaller than the tiles: a tile (a whole small contig, or the remainder tile at the end of a contig) is still waiting for
                # its job to fill up when a tile arrives that is a job of its own
                cfg['bp_per_job'] = rng(case['seed'], 'C08', 'small_jobs', case['i'], ti).choice([max(2, seg // 2), max(2, seg // 3), 3000, 5000, seg - 1])
                acc.count('run:tiling_with_jobs_smaller_than_tiles')
            out_t = os.path.join(dd, f'tile{ti}', 't.bam')
            os.makedirs(os.path.dirname(out_t))
            ev = os.path.join(dd, f'evt{ti}.jsonl')
            import copy
            kw = dict(captured)
            kw['molecule_iterator_args'] = dict(captured['molecule_iterator_args'])
            kw.update(out_bam_path=out_t, one_contig_per_process=False, bp_per_segment=cfg['bp_per_segment'], bp_per_job=cfg['bp_per_job'],
                      fragment_size=cfg['fragment_size'], use_pool=use_pool, n_threads=cfg['workers'], temp_folder_root=dd)
            if (case['i'] + ti) % 3 == 0:
                # the optional report of the job blocks (-jobbed): asking for it must not change what is tagged
                kw['job_bed_file'] = os.path.join(dd, f'jobs{ti}.bed')
                cfg['job_bed_file'] = True
                acc.count('run:tiling_with_job_bed_file')
            err = None
            with T.instrumented(ev, cfg['delay_seed'], ej()) as b2:
                try:
                    with contextlib.redirect_stdout(io.StringIO()), contextlib.redirect_stderr(io.StringIO()):
                        if use_pool:
                            b2.tag_multiome_multi_processing(**kw)
                        else:
                            # without a pool the job function is called directly: route it through the same monitor
                            b2.tag_multiome_multi_processing(**kw)
                except Exception as ex:
                    err = ex
            T.reap_pools()
            acc.count('run:tiling_pool' if use_pool else 'run:tiling_nopool')
            if err is not None:
                import traceback
                acc.violate('tiling-run-raised:' + type(err).__name__, f'tiling run raised {err!r} ({cfg})', dict(wit0, run=cfg))
                traceback.clear_frames(err.__traceback__)
                err = None
                continue
            compare(out_t, 'tiling', cfg, T.read_events(ev))
        acc.sample = {'library': cfg0, 'serial_records': len(srecs), 'edge_sites': edge_sites, 'last_run': cfg}
    return acc
