"""C11 - count tables count exactly the reads passing the filters, at documented weights.

Monitor: the DataFrame returned by create_count_table(args, return_df=True) on generated tagged BAMs for random
combinations of the filter / weighting options is compared cell by cell with an independent model written from the
option help texts.
"""
import os
import io
import math
import contextlib
from types import SimpleNamespace
from collections import Counter
from vlib.common import Acc, rng, Scratch
from vlib.sim.bam import write_bam
from vlib.props.c10 import df_to_dict

PROPERTY = 'C11'
LEVEL = 'exploration'
RULE = ('generated tagged BAMs (1-3 contigs, random flags incl. unmapped mates / unmapped reads / qc-fail / duplicate / proper pair, MAPQ 0..60, '
        'tags SM DS RC RR NH XA mp NM DA XF, CIGARs with I/D/S) x random option sets over dedup, minMQ, r1only/r2only, proper_pairs_only, no_indels, '
        'no_softclips, max_base_edits, filterXA, filterMP, blacklist, divideMultimapping, doNotDivideFragments, byValue, splitFeatures, joined / '
        'single feature tags, one or two sample tags, contig selection, BED regions. Non-trivial = (BAM, option set) where at least one read is '
        'filtered out and one is counted with a weight other than 1; distinct = distinct (BAM seed, option set).'
        ' Plus several files in one call, numeric tags whose value is 0 as feature / sample, by-value numbers of 7+ digits, and the table written as csv / pickle and read back.')
ASSUMPTIONS = ['the filter / weight model in this file is written from the option help texts (trusted specification)',
               'XA strings end with ";" as bwa writes them: the weight is divided over the alternative hits plus the reported one',
               'blacklist intervals are longer than a read and their edges are >=2 bp away from read ends (boundary coincidences are don\'t-care)',
               '--splitFeatures together with -byValue is documented as not implemented and not generated']
MIN_NONTRIVIAL = {'quick': 100, 'thorough': 12000}
REQUIRED_MONITORS = ['opt:bedfile_rows_not_grouped_with_contig', 'ret:create_count_table', 'output:csv', 'output:pickle', 'files:several_in_one_call', 'oracle:cells_compared', 'opt:dedup', 'opt:no_indels', 'opt:no_softclips', 'opt:divideMultimapping',
                     'opt:byValue', 'opt:bedfile', 'opt:blacklist', 'opt:contig', 'opt:filterXA', 'opt:filterMP', 'reads:filtered_out', 'reads:half_weight']
SHARD_TIMEOUT = {'quick': 900, 'thorough': 5400}


def gen_cases(tier, seed):
    n = 640 if tier == 'quick' else 40000
    return [{'i': i, 'seed': seed} for i in range(n)]


def gen_bam(r, contigs):
    recs = []
    meta = []
    rid = 0
    pool = [(r.randrange(len(contigs)), r.randrange(200, 2500)) for _ in range(r.randint(2, 6))]   # restriction-site like pile-ups
    for _ in range(r.randint(10, 70)):
        rid += 1
        tid = r.randrange(len(contigs))
        ln = contigs[tid][1]
        cig = r.choice(['30M'] * 5 + ['10M2I18M', '12M3D18M', '4S26M', '26M4S', '15M100N15M', '6H4S26M', '26M4S6H', '3H2S26M2S3H', '5H30M', '20=1X9='])
        qlen = sum(int(n) for n, o in __import__('re').findall(r'(\d+)([MIDNSHP=X])', cig) if o in 'MIS=X')
        rlen = sum(int(n) for n, o in __import__('re').findall(r'(\d+)([MIDNSHP=X])', cig) if o in 'MDN=X')
        pos = r.randrange(0, ln - rlen - 1)
        if r.random() < 0.45:
            tid, pos = r.choice(pool)          # several reads start at the same coordinate but differ in length / CIGAR
            ln = contigs[tid][1]
            pos = min(pos, ln - rlen - 1)
        paired = r.random() < 0.7
        kind = r.choice(['r1', 'r1', 'r2']) if paired else 'single'
        mate_unmapped = paired and r.random() < 0.15
        unmapped = r.random() < 0.06
        flag = 0
        if paired:
            flag |= 1 | (64 if kind == 'r1' else 128)
            if r.random() < 0.7 and not mate_unmapped:
                flag |= 2
            if mate_unmapped:
                flag |= 8
        if r.random() < 0.5:
            flag |= 16
        if r.random() < 0.12:
            flag |= 512
        if r.random() < 0.2:
            flag |= 1024
        if unmapped:
            flag |= 4
        tags = {}
        if r.random() < 0.95:
            tags['SM'] = f'LIB_{r.randint(1, 3)}'
        if r.random() < 0.85:
            tags['DS'] = pos + r.randint(0, 3)
        tags['RC'] = r.randint(0, 3)
        if r.random() < 0.12:
            tags['RR'] = r.choice(['no CATG', 'overflow'])
        if r.random() < 0.3:
            tags['NH'] = r.randint(1, 4)
        if r.random() < 0.25:
            k = r.randint(1, 3)
            tags['XA'] = ''.join(f"{r.choice(['chr1', 'chr2', 'chr5_alt', 'chrUn_alt'])},{'+-'[r.randint(0, 1)]}{r.randint(1, 9999)},30M,{r.randint(0, 3)};" for _ in range(k))
        if r.random() < 0.4:
            tags['mp'] = r.choice(['unique', 'bad', 'unknown'])
        if r.random() < 0.7:
            tags['NM'] = r.randint(0, 5)
        if r.random() < 0.4:
            tags['DA'] = r.choice(['A', 'B'])
        x = r.random()
        if x < 0.5:
            tags['XF'] = r.choice(['geneA', 'geneB', 'geneC'])
        elif x < 0.65:
            tags['XF'] = r.choice(['geneA,geneB', 'geneC,geneA'])
        if r.random() < 0.5:
            tags['xv'] = r.choice([1, 2, 5, 0.5, 3.25, 1234569, 7654321.5, 100000.25])
        mapq = r.choice([0, 1, 10, 19, 20, 30, 59, 60])
        rec = {'name': f'q{rid}', 'flag': flag, 'tid': tid, 'pos': pos, 'mapq': 0 if unmapped else mapq, 'cigar': None if unmapped else cig,
               'seq': 'A' * qlen, 'qual': [30] * qlen, 'tags': tags,
               'next_tid': tid if paired else -1, 'next_pos': pos if paired else -1}
        recs.append(rec)
        meta.append({'rlen': 0 if unmapped else rlen})
    return recs


def make_args(r, bam, dd, contigs, recs, i=None, seed=0):
    a = dict(alignmentfiles=[bam], head=None, o=None, bin=None, binTag='DS', sliding=None, bedfile=None, showtags=False, featureTags=None,
             joinedFeatureTags=None, byValue=None, sampleTags='SM', proper_pairs_only=False, no_indels=False, max_base_edits=None,
             no_softclips=False, minMQ=0, filterXA=False, dedup=False, divideMultimapping=False, doNotDivideFragments=False, contig=None,
             blacklist=None, r1only=False, r2only=False, filterMP=False, splitFeatures=False, featureDelimiter=',', feature_delimiter=',',
             noNames=False, keepOverBounds=False, bulk=False)
    mode = r.choice(['joined1', 'joined1', 'joined2', 'single1', 'single2'])
    # RC and NM are numeric tags whose value is often 0 (a present but falsy value is a value, not a missing tag)
    feats = {'joined1': [r.choice(['reference_name', 'chrom', 'XF', 'RC'])],
             'joined2': r.choice([['reference_name', 'XF'], ['XF', 'DA'], ['chrom', 'DA'], ['reference_name', 'RC'], ['NM', 'XF']]),
             'single1': [r.choice(['XF', 'reference_name', 'RC'])], 'single2': r.choice([['XF', 'DA'], ['XF', 'NM']])}[mode]
    if mode.startswith('joined'):
        a['joinedFeatureTags'] = ','.join(feats)
    else:
        a['featureTags'] = ','.join(feats)
    a['sampleTags'] = r.choice(['SM', 'SM', 'SM', 'SM,DA', 'SM,RC'])
    for opt, p in (('dedup', .4), ('proper_pairs_only', .2), ('no_indels', .3), ('no_softclips', .3), ('filterXA', .3), ('filterMP', .25),
                   ('divideMultimapping', .35), ('doNotDivideFragments', .35), ('r1only', .15)):
        a[opt] = r.random() < p
    if not a['r1only'] and r.random() < 0.12:
        a['r2only'] = True
    a['minMQ'] = r.choice([0, 0, 1, 20, 60])
    if r.random() < 0.3:
        a['max_base_edits'] = r.choice([0, 1, 3])
    if r.random() < 0.25 and mode in ('joined1', 'joined2', 'single1'):
        a['byValue'] = 'xv'
    if r.random() < 0.2 and a['byValue'] is None and 'XF' in feats:
        a['splitFeatures'] = True
    if r.random() < 0.2:
        a['contig'] = r.choice(contigs)[0]
    bed = None
    if r.random() < 0.2 and mode.startswith('joined'):
        bed = os.path.join(dd, 'regions.bed')
        rows = []
        for j in range(r.randint(1, 4)):
            c, ln = r.choice(contigs)
            s = r.randrange(0, ln - 50)
            rows.append((c, s, s + r.randint(20, 400), f'region{j}'))
        with open(bed, 'w') as f:
            for row in rows:
                f.write('\t'.join(map(str, row)) + '\n')
        a['bedfile'] = bed
        a['_bed_rows'] = rows
    if i is not None and i % 8 == 5 and mode.startswith('joined') and len(contigs) >= 2:
        # -bedfile together with -contig, the BED rows not grouped by contig (regions of the selected contig before and after rows of the others),
        # regions laid over the read pile-ups
        r2 = rng(seed, 'C11', 'bed_contig', i)
        a['contig'] = r2.choice(contigs)[0]
        by_contig = {}
        for rec in recs:
            if rec['tid'] >= 0:
                by_contig.setdefault(contigs[rec['tid']][0], []).append(rec['pos'])
        rows = []
        for j in range(r2.randint(4, 7)):
            c, ln = contigs[j % len(contigs)] if j % 2 else (a['contig'], dict(contigs)[a['contig']])
            centre = r2.choice(by_contig[c]) if by_contig.get(c) else r2.randrange(0, ln - 50)
            st = max(0, centre - r2.randint(0, 150))
            rows.append((c, st, min(ln, st + r2.randint(40, 400)), f'reg{j}'))
        bed = os.path.join(dd, 'regions.bed')
        with open(bed, 'w') as f:
            for row in rows:
                f.write('\t'.join(map(str, row)) + '\n')
        a['bedfile'] = bed
        a['_bed_rows'] = rows
        a['_bed_with_contig'] = True
    if r.random() < 0.4:
        # intervals longer than a read, edges >= 2bp away from any read end
        ends = {}
        for rec in recs:
            if rec['cigar'] is None:
                continue
            import re
            rl = sum(int(n) for n, o in re.findall(r'(\d+)([MIDNSHP=X])', rec['cigar']) if o in 'MDN=X')
            ends.setdefault(contigs[rec['tid']][0], set()).update([rec['pos'], rec['pos'] + rl, rec['pos'] + rl - 1])
        rows = []
        for _ in range(r.randint(1, 4)):
            c, ln = r.choice(contigs)
            for _try in range(30):
                s = r.randrange(0, ln - 200)
                if _try < 15 and ends.get(c):
                    # just behind a read start: covers the end of a long read that starts there but not a short one
                    s = min(max(0, r.choice(sorted(ends[c])) + r.randint(-100, 60)), ln - 200)
                e = s + r.randint(150, 400)
                if all(abs(x - s) >= 2 and abs(x - e) >= 2 for x in ends.get(c, ())):
                    rows.append((c, s, e))
                    break
        if rows:
            bl = os.path.join(dd, 'bl.bed')
            with open(bl, 'w') as f:
                for row in rows:
                    f.write('\t'.join(map(str, row)) + '\n')
            a['blacklist'] = bl
            a['_bl_rows'] = rows
    return a, feats, mode


def read_value(rec, contigs, tag):
    if tag in ('chrom', 'reference_name'):
        return contigs[rec['tid']][0] if rec['tid'] >= 0 else None
    return rec['tags'].get(tag)


def ref_len(rec):
    import re
    return sum(int(n) for n, o in re.findall(r'(\d+)([MIDNSHP=X])', rec['cigar']) if o in 'MDN=X')


def model(recs, contigs, a, feats, mode):
    """independent recomputation -> Counter {(sample, key): weight}, plus stats"""
    table = Counter()
    stats = Counter()
    samples_tags = a['sampleTags'].split(',')

    def passes(rec):
        f = rec['flag']
        if f & 4:
            return False
        if f & 512:
            return False
        if rec['mapq'] < a['minMQ']:
            return False
        if a['dedup'] and (f & 1024 or 'RR' in rec['tags']):
            return False
        if a['r1only'] and f & 128:
            return False
        if a['r2only'] and f & 64:
            return False
        if a['proper_pairs_only'] and not f & 2:
            return False
        if a['no_indels'] and ('I' in rec['cigar'] or 'D' in rec['cigar']):
            return False
        if a['no_softclips'] and 'S' in rec['cigar']:
            return False
        if a['max_base_edits'] is not None and 'NM' in rec['tags'] and rec['tags']['NM'] > a['max_base_edits']:
            return False
        if a['filterXA'] and 'XA' in rec['tags']:
            if any(h and not h.split(',')[0].endswith('_alt') for h in rec['tags']['XA'].split(';')):
                return False
        if a['filterMP'] and rec['tags'].get('mp') != 'unique':
            return False
        if a.get('_bl_rows'):
            c = contigs[rec['tid']][0]
            s, e = rec['pos'], rec['pos'] + ref_len(rec)
            for bc, bs, be in a['_bl_rows']:
                if bc == c and s < be and e > bs:
                    return False
        return True

    def weight(rec):
        f = rec['flag']
        w = 1.0
        if not (a['r1only'] or a['r2only']) and not a['doNotDivideFragments']:
            if f & 1 and not f & 8:
                w = 0.5
        if a['divideMultimapping']:
            if 'XA' in rec['tags']:
                w = w / (len([h for h in rec['tags']['XA'].split(';') if h]) + 1)
            elif 'NH' in rec['tags']:
                w = w / rec['tags']['NH']
        return w

    def add(rec, extra_key=None):
        sample = tuple(str(rec['tags'].get(t)) if rec['tags'].get(t) is not None else None for t in samples_tags)
        sample = tuple(rec['tags'].get(t) for t in samples_tags)
        w = weight(rec)
        if w != 1.0:
            stats['half'] += 1
        vals = {t: str(read_value(rec, contigs, t)) for t in feats + ([a['byValue']] if a['byValue'] and a['byValue'] not in feats and mode.startswith('joined') else [])}
        if a['byValue']:
            try:
                inc = float(vals.get(a['byValue'], rec['tags'].get(a['byValue'], 0)))
            except (TypeError, ValueError):
                inc = 0.0
        if mode.startswith('joined'):
            key_feats = [t for t in feats if t != a['byValue']]
            if a['splitFeatures']:
                states = [[(x if len(x) else 'None') for x in vals[t].split(',')] for t in feats]
                import itertools
                for st in itertools.product(*states):
                    key = tuple(st)
                    emit(sample, key, w, extra_key)
                return
            key = tuple(vals[t] for t in key_feats)
            emit(sample, key, inc if a['byValue'] else w, extra_key, by_value=bool(a['byValue']))
        else:
            for t in feats:
                v = vals[t]
                if a['byValue'] and t == a['byValue']:
                    continue
                if a['splitFeatures']:
                    for x in v.split(','):
                        emit(sample, (x,), w, extra_key)
                else:
                    emit(sample, (v,), w, extra_key)

    def emit(sample, key, w, extra_key, by_value=False):
        if extra_key is not None:
            if by_value:
                key = (a['byValue'],)
            if not len(key):
                return
            key = tuple(key) + extra_key
        table[(sample, tuple(key))] += w

    if a['bedfile']:
        for (c, s, e, name) in a['_bed_rows']:
            if a['contig'] is not None and c != a['contig']:
                continue
            for rec in recs:
                if rec['tid'] < 0 or contigs[rec['tid']][0] != c:
                    continue
                rs = rec['pos']
                re_ = rs + (ref_len(rec) if rec['cigar'] else 0)
                overlaps = (rs < e and re_ > s) if rec['cigar'] else (s <= rs < e)
                if not overlaps:
                    continue
                if passes(rec):
                    add(rec, (s, e, name))
                else:
                    stats['filtered'] += 1
    else:
        for rec in recs:
            if a['contig'] is not None and (rec['tid'] < 0 or contigs[rec['tid']][0] != a['contig']):
                continue
            if passes(rec):
                add(rec)
            else:
                stats['filtered'] += 1
    return table, stats


def normalise_df(df):
    out = Counter()
    for (col, key), v in df_to_dict(df).items():
        col = col if isinstance(col, tuple) else (col,)
        col = tuple(None if (isinstance(c, float) and math.isnan(c)) else c for c in col)
        key = tuple(str(k) if not isinstance(k, (int,)) else k for k in key)
        out[(col, key)] += v
    return out


def run_case(case):
    from singlecellmultiomics.bamProcessing import bamToCountTable as b2c
    acc = Acc()
    r = rng(case['seed'], 'C11', case['i'])
    contigs = [(f'chr{j + 1}', r.choice([3000, 8000])) for j in range(r.randint(1, 3))]
    recs = gen_bam(r, contigs)
    # several alignment files in one call: the table is the sum of the tables of the files
    more = [gen_bam(r, contigs) for _ in range(r.choice([0, 0, 0, 1, 2]))]
    with Scratch('c11') as dd:
        a, feats, mode = make_args(r, os.path.join(dd, 'in.bam'), dd, contigs, recs + [x for m in more for x in m], case['i'], case['seed'])
        acc.count('opt:bedfile_rows_not_grouped_with_contig', 1 if a.get('_bed_with_contig') else 0)
        bam = write_bam(a['alignmentfiles'][0], contigs, recs)
        for mi, m in enumerate(more):
            a['alignmentfiles'].append(write_bam(os.path.join(dd, f'in_more{mi}.bam'), contigs, m))
        acc.count('files:several_in_one_call', 1 if more else 0)
        ns = SimpleNamespace(**{k: v for k, v in a.items() if not k.startswith('_')})
        shown = {k: v for k, v in a.items() if k not in ('alignmentfiles', 'showtags', 'o', 'head', 'noNames', 'feature_delimiter', 'bulk') and v not in (None, False)}
        for o in ('dedup', 'no_indels', 'no_softclips', 'divideMultimapping', 'byValue', 'bedfile', 'blacklist', 'contig', 'filterXA', 'filterMP'):
            acc.count('opt:' + o, 1 if a[o] else 0)
        wit = {'options': {k: (str(v) if not isinstance(v, (int, float, str, bool)) else v) for k, v in shown.items()}, 'feature_mode': mode,
               'reads': [(x['name'], x['flag'], contigs[x['tid']][0], x['pos'], x['mapq'], x['cigar'], x['tags']) for x in recs][:70],
               'further_files': [[(x['name'], x['flag'], contigs[x['tid']][0], x['pos'], x['mapq'], x['cigar'], x['tags']) for x in m][:40] for m in more]}
        try:
            with contextlib.redirect_stdout(io.StringIO()):
                df = b2c.create_count_table(ns, return_df=True)
        except Exception as ex:
            unmapped_cigar = any(x['cigar'] is None for x in recs) and (a['no_indels'] or a['no_softclips'])
            mech = 'count-table-raised-on-unmapped-read' if (isinstance(ex, TypeError) and unmapped_cigar) else 'count-table-raised:' + type(ex).__name__
            acc.violate(mech, f'create_count_table raised {ex!r} with options {shown}', wit)
            acc.evals += 1
            return acc
        acc.evals += 1
        acc.count('ret:create_count_table')
        # ---- the table as it is written out: the same call with an output path (csv / pickle) is read back and must hold the same numbers
        out_form = r.choice([None, 'csv', 'csv', 'pickle', 'pickle.gz'])
        if out_form:
            import pandas as pd
            ns.o = os.path.join(dd, 'table.' + out_form)
            acc.count('output:' + out_form.split('.')[0])
            try:
                with contextlib.redirect_stdout(io.StringIO()):
                    b2c.create_count_table(ns, return_df=False)
                if out_form == 'csv':
                    back = pd.read_csv(ns.o, header=list(range(df.columns.nlevels)), index_col=list(range(df.index.nlevels)),
                                       keep_default_na=False, na_values=['']) if len(df) else df
                else:
                    back = pd.read_pickle(ns.o)
                written = normalise_df(back) if len(back) else {}
                inmem = normalise_df(df) if len(df) else {}
                def lab(x):
                    # a missing sample / feature value has no unambiguous spelling in a csv file (None, empty, nan): one label for all of them
                    sx = str(x)
                    return 'None' if x is None or sx in ('', 'nan', 'None') or sx.startswith('Unnamed:') else (sx[:-2] if sx.endswith('.0') and sx[:-2].lstrip('-').isdigit() else sx)
                wkeys, mkeys = Counter(), Counter()
                for k, v in written.items():
                    wkeys[(tuple(lab(x) for x in k[0]), tuple(lab(x) for x in k[1]))] += v
                for k, v in inmem.items():
                    mkeys[(tuple(lab(x) for x in k[0]), tuple(lab(x) for x in k[1]))] += v
                bad = [(k, wkeys.get(k, 0.0), mkeys.get(k, 0.0)) for k in set(wkeys) | set(mkeys)
                       if abs(wkeys.get(k, 0.0) - mkeys.get(k, 0.0)) > 1e-9 * max(1.0, abs(mkeys.get(k, 0.0)))]
                if bad:
                    acc.violate('written-table-differs-from-counts:' + out_form.split('.')[0],
                                f'the table written to {os.path.basename(ns.o)} differs from the counts in {len(bad)} cells, e.g. {sorted(bad, key=str)[:3]} (written, counted); options {shown}', wit)
            except Exception as ex:
                if len(df):
                    acc.violate('writing-table-raised:' + type(ex).__name__, f'writing / reading back {out_form} raised {ex!r} with options {shown}', wit)
        exp, stats = model(recs, contigs, a, feats, mode)
        for m in more:
            e2, s2 = model(m, contigs, a, feats, mode)
            for k2, v2 in e2.items():
                exp[k2] = exp.get(k2, 0) + v2
            for k2, v2 in s2.items():
                stats[k2] = stats.get(k2, 0) + v2
        acc.count('reads:filtered_out', stats['filtered'])
        acc.count('reads:half_weight', stats['half'])
        got = normalise_df(df)
        expn = Counter()
        for (sample, key), v in exp.items():
            if abs(v) < 1e-12:
                continue
            s = tuple(sample)
            k = tuple(str(x) if not isinstance(x, int) else x for x in key)
            expn[(s, k)] += v
        keys = set(got) | set(expn)
        acc.count('oracle:cells_compared', len(keys))
        diffs = [(k, got.get(k, 0.0), expn.get(k, 0.0)) for k in keys if abs(got.get(k, 0.0) - expn.get(k, 0.0)) > 1e-9]
        if diffs:
            gt, et = sum(got.values()), sum(expn.values())
            if all(g > e for _, g, e in diffs):
                mech = 'count-table-overcounts'
            elif all(g < e for _, g, e in diffs):
                mech = 'count-table-undercounts'
            else:
                mech = 'count-table-differs'
            acc.violate(mech, f'count table differs in {len(diffs)} cells (total {gt} vs model {et}); options {shown}; first {sorted(diffs, key=str)[:3]}',
                        dict(wit, diffs=[str(d) for d in sorted(diffs, key=str)[:12]]))
        if stats['filtered'] and stats['half']:
            acc.sigs.add(f"{case['i']}/{sorted(shown.items(), key=str)}")
        acc.sample = {'options': {k: str(v) for k, v in shown.items()}, 'feature_mode': mode, 'reads': len(recs), 'filtered_out': stats['filtered'],
                      'table_total': sum(got.values())}
    return acc
