"""C06 - molecule assignment equals the ground-truth duplicate structure.

Monitors: (1) the partition yielded by MoleculeIterator (read ids per molecule); (2) a post-condition
observer on Molecule.write_tags (live molecule objects, all subclasses) evaluated inside the API runs and
inside the single-process tagger; (3) the per-record duplicate bit / RC / af / TF / mi tags of tagged BAMs
written by the real command line, including inputs that already carry duplicate bits / stale tags and the
re-tagging of the tagger's own output.
"""
import os
import io
import contextlib
from collections import defaultdict, Counter
from vlib.common import Acc, rng, Scratch
from vlib import tagger as T
from vlib.sim import frags as F
from vlib.sim.bam import write_bam

PROPERTY = 'C06'
LEVEL = 'exploration'
RULE = ('simulated libraries with known truth: 1-8 cells, 1-40 sites on both strands, 1-6 UMIs per site incl. Hamming 1/2 neighbours and N, '
        '1-5 PCR copies with varying far ends, soft clips, mismatches; NLA and CHIC (trimmed / untrimmed), hamming 0/1/2, CHIC radius 0/5, '
        'pooling 0/1, max_associated_fragments cap; API runs (MoleculeIterator + write_tags) and the single-process command line; histories: '
        'input with random duplicate bits and stale RC/af/TF tags, and re-tagging the tagged output. Non-trivial = library with at least one '
        'true molecule of >=2 fragments and at least two molecules at one site; distinct = distinct (library seed, configuration).'
        ' Plus ejection intervals 0..25 on API and command line, molecules of >255 fragments, and: with exact UMIs the copies of one true molecule are never spread over two molecules (any radius); plain Fragment / Molecule on paired inserts whose copies differ in read length, also beyond the insert, with the exact partition demanded.')
ASSUMPTIONS = ['the simulator is the truth (cell, site, strand, UMI by construction)',
               'for hamming>0 / radius>0 only soundness is demanded (chain linkage), for hamming 0 and radius 0 exact equality of the partition']
MIN_NONTRIVIAL = {'quick': 60, 'thorough': 2000}
REQUIRED_MONITORS = ['lib:plain_inserts_on_the_first_or_last_base_of_a_contig', 'history:peek_then_full_pass', 'lib:molecules_of_more_than_255_fragments', 'eject:interval_shrunk', 'partition:no_split_checked', 'class:plain_fragment', 'option:allow_cycle_shift', 'lib:hard_clipped_fragments', 'input:arbitrary_order_never_ejected', 'class:plain_paired_inserts', 'lib:plain_copies_with_mates_running_past_the_insert', 'hook:Molecule.write_tags', 'partition:exact_compared', 'partition:soundness_checked', 'tags:molecules_checked',
                     'history:input_with_duplicate_bits', 'history:retagged', 'cli:records_checked', 'cap:overflow_molecules']
SHARD_TIMEOUT = {'quick': 900, 'thorough': 5400}


def gen_cases(tier, seed):
    n = 160 if tier == 'quick' else 6000
    return [{'i': i, 'seed': seed} for i in range(n)]


def hd(a, b):
    # an N in a UMI is an unknown base: it cannot count as a mismatch (with hamming 0 UMIs are compared as strings, see exact mode)
    return sum(1 for x, y in zip(a, b) if x != y and x != 'N' and y != 'N') if len(a) == len(b) else 99


def connected(items, close):
    items = list(items)
    if not items:
        return True
    seen = {0}
    stack = [0]
    while stack:
        i = stack.pop()
        for j in range(len(items)):
            if j not in seen and close(items[i], items[j]):
                seen.add(j)
                stack.append(j)
    return len(seen) == len(items)


class WriteTagsObserver:
    """post-condition on Molecule.write_tags, installed on the base class (all subclasses call it)"""

    def __init__(self, acc):
        self.acc = acc
        self.bad = []

    def install(self):
        from singlecellmultiomics.molecule import molecule as mm
        self.mm = mm
        self.orig = mm.Molecule.write_tags
        obs = self

        def wrapped(self_):
            res = obs.orig(self_)
            obs.acc.count('hook:Molecule.write_tags')
            obs.check(self_)
            return res
        mm.Molecule.write_tags = wrapped

    def remove(self):
        self.mm.Molecule.write_tags = self.orig

    def check(self, m):
        n = len(m.fragments)
        primaries = 0
        ranks = []
        for frag in m.fragments:
            reads = [x for x in frag if x is not None]
            dups = set(x.is_duplicate for x in reads)
            if dups == {False}:
                primaries += 1
            elif len(dups) > 1:
                self.bad.append(('mates-disagree-on-duplicate-bit', self.describe(m)))
            for x in reads:
                ranks.append(x.get_tag('RC') if x.has_tag('RC') else None)
                if not x.has_tag('af') or x.get_tag('af') != n:
                    self.bad.append(('af-differs-from-molecule-size', self.describe(m)))
                if not x.has_tag('TF') or x.get_tag('TF') != n + m.overflow_fragments:
                    self.bad.append(('TF-differs-from-total-fragments', self.describe(m)))
        if primaries != 1:
            self.bad.append(('primary-fragment-count-%s' % ('zero' if primaries == 0 else 'many'), self.describe(m)))
        if sorted(set(x for x in ranks if x is not None)) != list(range(n)) or None in ranks:
            self.bad.append(('RC-not-a-permutation', self.describe(m)))

    @staticmethod
    def describe(m):
        out = []
        for frag in m.fragments:
            r1 = [x for x in frag if x is not None][0]
            out.append((r1.query_name, r1.flag, r1.get_tag('RC') if r1.has_tag('RC') else None))
        return out[:8]


def truth_partition(truths, valid_only=True):
    groups = defaultdict(set)
    for rid, t in truths.items():
        if t.get('key') is None or not t['valid']:
            continue
        groups[t['key']].add(rid)
    return set(frozenset(g) for g in groups.values())


def plain_insert_library(r, case_id, contigs, d):
    """paired-end library for the plain Fragment / Molecule classes. A molecule is an insert [s, e) of one cell with one UMI on one strand; its
    copies share both insert coordinates, while the lengths of their reads differ - also beyond the insert (mates that run past each other's
    start, as with inserts shorter than a read). The span of such a fragment is anchored on the 5' ends of the two mates, so all copies are
    identical (cell, start, end, strand, UMI). Different molecules of one (cell, strand) never share a start or an end unless told apart by UMI."""
    gen = F.Genome(r, contigs)
    recs, truths = [], {}
    rid = 1
    used = defaultdict(set)
    for it_ in range(r.randint(3, 30)):
        name, ln = r.choice(contigs)
        ref = gen.get(name)
        ins = r.choice([r.randint(12, 40), r.randint(20, 120), r.randint(100, 400)])
        s = r.randrange(70, ln - ins - 70)
        if it_ < 2:
            # an insert that begins on the very first base of the contig (coordinate 0), one that ends on its last base
            ins = max(ins, 60)
            s = 0 if it_ == 0 else ln - ins
            PLAIN_EDGE[0] += 1
        e = s + ins
        cell, reverse = r.randint(1, 3), r.random() < 0.5
        if any(x in used[(name, cell, reverse)] for x in (('s', s), ('e', e))):
            continue
        used[(name, cell, reverse)].update([('s', s), ('e', e)])
        umis = [F.rand_dna(r, 3)]
        while r.random() < 0.4:
            # another molecule on exactly the same insert, told apart by its UMI only
            u = F.rand_dna(r, 3)
            if all(hd(u, x) > d for x in umis):
                umis.append(u)
        for umi in umis:
            for _c in range(r.randint(1, 4)):
                l1, l2 = r.choice([20, 30, 40, 60]), r.choice([20, 30, 40, 60])
                if not reverse:
                    a1, b1, a2, b2 = s, s + l1, e - l2, e
                else:
                    a1, b1, a2, b2 = e - l1, e, s, s + l2
                if min(a1, a2) < s or max(b1, b2) > e:
                    PLAIN_PAST[0] += 1
                qn = F.qname(rid, case_id, cell, umi)
                tl = max(b1, b2) - min(a1, a2)
                f1 = 1 | 2 | 64 | (16 if reverse else 32)
                f2 = 1 | 2 | 128 | (32 if reverse else 16)
                recs.append({'name': qn, 'flag': f1, 'tid': gen.tid(name), 'pos': a1, 'mapq': 60, 'cigar': f'{b1 - a1}M', 'seq': ref[a1:b1], 'qual': [30] * (b1 - a1),
                             'tags': {'MD': str(b1 - a1), 'NM': 0}, 'next_tid': gen.tid(name), 'next_pos': a2, 'tlen': -tl if reverse else tl})
                recs.append({'name': qn, 'flag': f2, 'tid': gen.tid(name), 'pos': a2, 'mapq': 60, 'cigar': f'{b2 - a2}M', 'seq': ref[a2:b2], 'qual': [30] * (b2 - a2),
                             'tags': {'MD': str(b2 - a2), 'NM': 0}, 'next_tid': gen.tid(name), 'next_pos': a1, 'tlen': tl if reverse else -tl})
                truths[rid] = {'id': rid, 'cell': cell, 'sample': f'LIB_{cell}', 'contig': name, 'site': s if not reverse else e, 'reverse': reverse, 'umi': umi,
                               'valid': True, 'clip': 0, 'method': 'plain', 'span': (s, e), 'r1': (a1, b1), 'r2': (a2, b2),
                               'key': (f'LIB_{cell}', name, s, e, reverse, umi)}
                rid += 1
    return gen, recs, truths


PLAIN_PAST = [0]
PLAIN_EDGE = [0]
PLAIN_EDGE = [0]


def run_case(case):
    import pysam
    import singlecellmultiomics.molecule as smm
    import singlecellmultiomics.fragment as smf
    from singlecellmultiomics.molecule import MoleculeIterator
    acc = Acc()
    r = rng(case['seed'], 'C06', case['i'])
    method = r.choice(['nla', 'nla', 'chic', 'chic', 'plain'])
    d = r.choice([0, 0, 0, 1, 2])
    radius = r.choice([0, 0, 5]) if method == 'chic' else 0
    pooling = r.choice([0, 1])
    trimmed = r.random() < 0.6
    history = r.choice(['clean', 'clean', 'dupbits', 'stale'])
    cap = r.choice([None, None, None, 2, 3])
    ncontig = r.randint(1, 3)
    contigs = [(f'chr{j + 1}', r.choice([3000, 8000, 20000, 60000])) for j in range(ncontig)]
    # how often the molecule buffer is checked for molecules that are out of reach (default: every 10,000 fragments, never with these sizes)
    eject_every = r.choice([None, None, 0, 1, 5, 25])
    n_sites = r.choice([1, 3, 8, 20, 40])
    deep = case['i'] % 40 == 11
    if deep:
        # molecules of more than 255 fragments: the fragment-count and rank tags pass the range of a byte
        n_sites, cap = 2, None
        acc.count('lib:molecules_of_more_than_255_fragments')
    plain_inserts = case['i'] % 8 == 3
    # NlaIII with the option that accepts copies which lost their first sequenced base: such a copy has the same cut site as its complete sisters
    cycle_shift_allowed = method == 'nla' and case['i'] % 3 == 1
    acc.count('option:allow_cycle_shift', 1 if cycle_shift_allowed else 0)
    if plain_inserts:
        method, radius, cap, deep = 'plain', 0, None, False
        PLAIN_PAST[0] = 0
        PLAIN_EDGE[0] = 0
        gen, recs, truths = plain_insert_library(r, case['i'] + 1, contigs, d)
        acc.count('class:plain_paired_inserts')
        acc.count('lib:plain_copies_with_mates_running_past_the_insert', PLAIN_PAST[0])
        acc.count('lib:plain_inserts_on_the_first_or_last_base_of_a_contig', PLAIN_EDGE[0])
    else:
      gen, recs, truths = F.simulate_library(
        r, method='nla' if method == 'plain' else method, contigs=contigs, n_cells=r.randint(1, 8) if not deep else 1, n_sites=n_sites, umi_len=r.choice([3, 3, 6]),
        umis_per_site=(1, r.choice([1, 3, 6])) if not deep else (1, 1), copies=(1, r.choice([1, 3, 5])) if not deep else (256, 300), case_id=case['i'] + 1, p_clip=0.25,
        p_invalid=0.08 if method == 'nla' else 0.0, p_umi_neighbour=0.5, chic_trimmed=trimmed,
        p_dup_flag=0.5 if history == 'dupbits' else 0.0, p_stale=0.6 if history == 'stale' else 0.0,
        n_unmapped=r.choice([0, 0, 3]), umi_with_n=0.05, p_hard_clip=r.choice([0, 0.1, 0.3]), p_cycle_shift=0.25 if cycle_shift_allowed else 0.0)
    if not truths:
        return acc
    cfg = {'method': method, 'allow_cycle_shift': cycle_shift_allowed, 'hamming': d, 'radius': radius, 'pooling': pooling, 'trimmed': trimmed, 'history': history, 'cap': cap,
           'fragments': len(truths), 'sites': n_sites, 'check_eject_every': eject_every if eject_every is not None else 'default'}
    acc.count('eject:interval_shrunk', 0 if eject_every is None else 1)
    if history != 'clean':
        acc.count('history:input_with_duplicate_bits')
    acc.count('lib:hard_clipped_fragments', sum(1 for t in truths.values() if t.get('hard_clipped')))
    tp = truth_partition(truths)
    mclass = {'nla': smm.NlaIIIMolecule, 'chic': smm.CHICMolecule, 'plain': smm.Molecule}[method]
    fclass = {'nla': smf.NlaIIIFragment, 'chic': smf.CHICFragment, 'plain': smf.Fragment}[method]
    fargs = {'umi_hamming_distance': d}
    if method == 'plain':
        # plain fragments: equality is span based (start or end within the radius), so only soundness is demanded: the site of the
        # simulator is not what these classes compare
        fargs['assignment_radius'] = 0
        acc.count('class:plain_fragment')
    if method == 'chic':
        fargs['assignment_radius'] = radius
    if cycle_shift_allowed and method == 'nla':
        fargs['allow_cycle_shift'] = True
    margs = {}
    if cap:
        margs['max_associated_fragments'] = cap
    obs = WriteTagsObserver(acc)
    wit = {'config': cfg, 'truth_head': [(t['id'], t['key']) for t in list(truths.values())[:12]]}

    class_size = Counter(t['key'] for t in truths.values() if t.get('key'))

    def is_overflow(ids):
        # a surplus copy of a capped molecule, recognised by what it is (the wording of its rejection reason is the tool's business): a
        # molecule of one fragment whose true molecule has more copies than the cap allows
        return bool(cap) and len(ids) == 1 and class_size.get(truths[ids[0]].get('key'), 0) > cap

    def check_overflow_claim(ids, label):
        # a fragment may be turned away as surplus only when its own molecule is full: with exact matching (hamming 0, radius 0) that is
        # when its true molecule has more copies than the cap
        if d == 0 and radius == 0 and method != 'plain' and cap and len(ids) == 1 and truths[ids[0]].get('key') and \
                class_size.get(truths[ids[0]]['key'], 0) <= cap:
            acc.violate('fragment-turned-away-although-its-molecule-is-not-full',
                        f'{label}: fragment {ids[0]} of true molecule {truths[ids[0]]["key"]} ({class_size[truths[ids[0]]["key"]]} copies) was emitted as surplus '
                        f'of a capped molecule although max_associated_fragments={cap} ({cfg})', dict(wit, fragment=ids[0]))

    def check_partition(groups, label, overflow_ids):
        """groups: list of lists of ids (molecules of valid fragments)"""
        acc.evals += 1
        got = set(frozenset(g) for g in groups)
        all_ids = [i for g in groups for i in g]
        if len(all_ids) != len(set(all_ids)):
            acc.violate('fragment-in-two-molecules', f'{label}: a fragment was yielded in two molecules ({cfg})', wit)
        valid_ids = set(i for i, t in truths.items() if t['valid'] and t.get('key'))
        missing = valid_ids - set(all_ids) - overflow_ids
        if missing:
            acc.violate('valid-fragment-not-yielded', f'{label}: valid fragments {sorted(missing)[:5]} are in no molecule ({cfg})', wit)
        if d == 0 and radius == 0 and not cap and (method != 'plain' or plain_inserts):
            acc.count('partition:exact_compared')
            if got != tp:
                only_got = sorted(map(sorted, got - tp))[:3]
                only_exp = sorted(map(sorted, tp - got))[:3]
                merged = any(len(set(truths[i]['key'] for i in g)) > 1 for g in got - tp)
                acc.violate('partition-merges-distinct-molecules' if merged else 'partition-splits-a-molecule',
                            f'{label}: partition differs from truth; only in output {only_got}; only in truth {only_exp} ({cfg})',
                            dict(wit, got=only_got, expected=only_exp, keys={i: truths[i]['key'] for g in only_got + only_exp for i in g}))
        # completeness: with exact UMI matching the copies of one true molecule (identical cell, site, strand, UMI) are never spread over two
        # molecules, whatever the assignment radius (a radius can only merge more)
        if d == 0 and not cap and (method != 'plain' or plain_inserts):
            acc.count('partition:no_split_checked')
            where = {}
            for gi, g in enumerate(groups):
                for i in g:
                    where[i] = gi
            for cls in tp:
                gis = set(where[i] for i in cls if i in where)
                if len(gis) > 1:
                    acc.violate('partition-splits-a-molecule', f'{label}: the copies {sorted(cls)} of one true molecule {truths[next(iter(cls))]["key"]} are spread over '
                                                                f'{len(gis)} molecules ({cfg})', dict(wit, true_molecule=sorted(cls)))
                    break
        # soundness for every configuration
        acc.count('partition:soundness_checked')
        for g in groups:
            ts = [truths[i] for i in g]
            if len(set((t['sample'], t['contig'], t['reverse']) for t in ts)) > 1:
                acc.violate('molecule-mixes-cell-strand-or-contig', f'{label}: molecule {sorted(g)} mixes {set((t["sample"], t["contig"], t["reverse"]) for t in ts)} ({cfg})', wit)
                continue
            if method != 'plain' and not connected([t['site'] for t in ts], lambda a, b: abs(a - b) <= radius):
                acc.violate('molecule-spans-sites-beyond-radius', f'{label}: molecule {sorted(g)} has sites {sorted(set(t["site"] for t in ts))} radius {radius} ({cfg})', wit)
            if not connected([t['umi'] for t in ts], lambda a, b: (a == b) if d == 0 else hd(a, b) <= d):
                acc.violate('molecule-links-distant-umis', f'{label}: molecule {sorted(g)} has UMIs {sorted(set(t["umi"] for t in ts))} hamming {d} ({cfg})', wit)
            if cap and len(g) > cap:
                acc.violate('molecule-exceeds-cap', f'{label}: molecule of {len(g)} fragments with max_associated_fragments={cap}', wit)

    with Scratch('c06') as dd:
        ties = r if case['i'] % 2 else None
        acc.count('input:ties_in_random_order', 1 if ties else 0)
        bam = write_bam(os.path.join(dd, 'in.bam'), gen.refs, recs, tie_rng=ties)
        # ------------------------------------------------------------ API run
        obs.install()
        try:
            with pysam.AlignmentFile(bam) as f, contextlib.redirect_stdout(io.StringIO()):
                groups, overflow_ids, invalid_ids = [], set(), set()
                it_kwargs = {}
                peek = len(gen.refs) == 1 and r.random() < 0.5
                if peek:
                    it_kwargs['contig'] = gen.refs[0][0]   # a region fetch restarts from the beginning on every iteration
                if eject_every is not None:
                    it_kwargs['check_eject_every'] = eject_every
                mol_iter = MoleculeIterator(f, molecule_class=mclass, fragment_class=fclass, fragment_class_args=dict(fargs),
                                            molecule_class_args=dict(margs), yield_invalid=True, pooling_method=pooling, **it_kwargs)
                if peek:
                    # history: look at the first molecule (as the class documentation does), then iterate the same object in full
                    for _m in mol_iter:
                        break
                    acc.count('history:peek_then_full_pass')
                for m in mol_iter:
                    ids = [F.id_from_name([x for x in frag if x is not None][0].query_name) for frag in m]
                    m.write_tags()
                    acc.count('tags:molecules_checked')
                    r1 = [x for x in m.fragments[0] if x is not None][0]
                    rr = r1.get_tag('RR') if r1.has_tag('RR') else ''
                    if 'overflow' in rr or is_overflow(ids):
                        overflow_ids.update(ids)
                        acc.count('cap:overflow_molecules')
                        check_overflow_claim(ids, 'api')
                        if len(ids) != 1:
                            acc.violate('overflow-molecule-not-single', f'overflow molecule with {len(ids)} fragments', wit)
                        continue
                    if all(not truths[i]['valid'] for i in ids):
                        invalid_ids.update(ids)
                        continue
                    groups.append(ids)
                if not cap:
                    acc.count('cap:overflow_molecules', 0)
                check_partition(groups, 'api', overflow_ids)
        finally:
            obs.remove()
        for mech, desc in obs.bad[:6]:
            acc.violate(mech, f'api write_tags post-condition: {mech} on molecule {desc} ({cfg})', dict(wit, molecule=desc))
        obs.bad.clear()
        # ------------------------------------------------------------ API run on fragments in arbitrary order, nothing ever ejected
        if case['i'] % 4 == 1 and not cap:
            # check_eject_every=None keeps every molecule in memory: the documented way to assign molecules in input that is not coordinate
            # sorted (aligner order, name sorted, reads collected from several regions)
            with pysam.AlignmentFile(bam) as f:
                by_name = defaultdict(lambda: [None, None])
                for a in f.fetch(until_eof=True):
                    if a.is_secondary or a.is_supplementary:
                        continue
                    by_name[a.query_name][1 if a.is_read2 else 0] = a
            frs_ = [tuple(v) for v in by_name.values()]
            r.shuffle(frs_)
            with contextlib.redirect_stdout(io.StringIO()):
                it_ = MoleculeIterator(frs_, molecule_class=mclass, fragment_class=fclass, fragment_class_args=dict(fargs), molecule_class_args=dict(margs),
                                       yield_invalid=True, pooling_method=pooling, check_eject_every=None)
                groups_u = []
                for m in it_:
                    ids = [F.id_from_name([x for x in frag if x is not None][0].query_name) for frag in m]
                    if all(not truths[i]['valid'] for i in ids):
                        continue
                    groups_u.append(ids)
            acc.count('input:arbitrary_order_never_ejected')
            check_partition(groups_u, 'api-unsorted-never-ejected', set())
        # ------------------------------------------------------------ command line (single process) + re-tag
        if case['i'] % 2 == 0 and method != 'plain':
            from singlecellmultiomics.universalBamTagger.bamtagmultiome import run_multiome_tagging_cmd
            out1 = os.path.join(dd, 'tagged.bam')
            cmd = [bam, '-o', out1, '-method', method, '-umi_hamming_distance', str(d)]
            if cycle_shift_allowed and method == 'nla':
                cmd.append('--allow_cycle_shift')
            if method == 'chic' and radius:
                cmd += ['-assignment_radius', str(radius)]
            if cap:
                cmd += ['-max_associated_fragments', str(cap)]
            obs.install()
            try:
                with contextlib.redirect_stdout(io.StringIO()), contextlib.redirect_stderr(io.StringIO()), T.instrumented(eject_every=eject_every):
                    run_multiome_tagging_cmd(cmd)
            finally:
                obs.remove()
            for mech, desc in obs.bad[:6]:
                acc.violate(mech, f'cli write_tags post-condition: {mech} on molecule {desc} ({cfg})', dict(wit, molecule=desc))
            obs.bad.clear()
            g1 = check_tagged_bam(acc, out1, truths, cfg, wit, 'cli', check_partition, cap, is_overflow, check_overflow_claim)
            out2 = os.path.join(dd, 'retagged.bam')
            cmd2 = [out1, '-o', out2, '-method', method, '-umi_hamming_distance', str(d)]
            if cycle_shift_allowed and method == 'nla':
                cmd2.append('--allow_cycle_shift')
            if method == 'chic' and radius:
                cmd2 += ['-assignment_radius', str(radius)]
            if cap:
                cmd2 += ['-max_associated_fragments', str(cap)]
            with contextlib.redirect_stdout(io.StringIO()), contextlib.redirect_stderr(io.StringIO()), T.instrumented(eject_every=eject_every):
                run_multiome_tagging_cmd(cmd2)
            acc.count('history:retagged')
            g2 = check_tagged_bam(acc, out2, truths, cfg, wit, 'retag', check_partition, cap, is_overflow, check_overflow_claim)
            # greedy clustering with hamming>0 / radius>0 depends on arrival order (ties are re-ordered by the sort): only exact mode must be idempotent
            if g1 is not None and g2 is not None and not cap and d == 0 and radius == 0 and set(map(frozenset, g1)) != set(map(frozenset, g2)):
                acc.violate('retagging-changes-partition', f're-tagging the tagged BAM changed the partition ({cfg})', wit)
        else:
            acc.count('history:retagged', 0)
            acc.count('cli:records_checked', 0)
    multi = any(len(g) >= 2 for g in tp)
    per_site = defaultdict(int)
    for g in tp:
        k = truths[next(iter(g))]['key']
        per_site[(k[0], k[1], k[2], k[3])] += 1
    if multi and any(v >= 2 for v in per_site.values()):
        acc.sigs.add(f"{case['i']}/{sorted(cfg.items(), key=str)}")
    acc.sample = {'config': cfg, 'true_molecules': len(tp), 'largest_molecule': max((len(g) for g in tp), default=0),
                  'example_truth': [(t['id'], t['key']) for t in list(truths.values())[:3]]}
    return acc


def check_tagged_bam(acc, path, truths, cfg, wit, label, check_partition, cap, is_overflow=None, check_overflow_claim=None):
    import pysam
    by_mi = defaultdict(list)
    with pysam.AlignmentFile(path) as f:
        for a in f.fetch(until_eof=True):
            acc.count('cli:records_checked')
            rid = F.id_from_name(a.query_name)
            if a.has_tag('mi'):
                by_mi[a.get_tag('mi')].append((rid, a))
    groups = []
    overflow_ids = set()
    for mi, items in by_mi.items():
        frs = defaultdict(list)
        for rid, a in items:
            frs[rid].append(a)
        ids = list(frs)
        any_read = items[0][1]
        rr = any_read.get_tag('RR') if any_read.has_tag('RR') else ''
        n = len(ids)
        primaries = 0
        ranks = []
        for rid, reads in frs.items():
            dups = set(x.is_duplicate for x in reads)
            if dups == {False}:
                primaries += 1
            for x in reads:
                ranks.append(x.get_tag('RC') if x.has_tag('RC') else None)
                if not x.has_tag('af') or x.get_tag('af') != n:
                    acc.violate('af-differs-from-molecule-size', f'{label}: read {x.query_name} af={x.get_tag("af") if x.has_tag("af") else None} molecule of {n} ({cfg})', wit)
                if x.has_tag('TF') and x.get_tag('TF') < n:
                    acc.violate('TF-differs-from-total-fragments', f'{label}: TF={x.get_tag("TF")} < molecule size {n}', wit)
                if not cap and x.has_tag('TF') and x.get_tag('TF') != n:
                    acc.violate('TF-differs-from-total-fragments', f'{label}: TF={x.get_tag("TF")} molecule size {n} without cap', wit)
        acc.count('tags:molecules_checked')
        if primaries != 1:
            acc.violate('primary-fragment-count-%s' % ('zero' if primaries == 0 else 'many'),
                        f'{label}: molecule {mi} with fragments {sorted(ids)[:6]} has {primaries} fragments without duplicate bit '
                        f'(input duplicate bits: {[truths[i].get("dup_flag") for i in sorted(ids)[:6]]}) ({cfg})', wit)
        if sorted(set(x for x in ranks if x is not None)) != list(range(n)) or None in ranks:
            acc.violate('RC-not-a-permutation', f'{label}: molecule {mi} ranks {sorted(set(ranks), key=str)} for {n} fragments ({cfg})', wit)
        if 'overflow' in rr or (is_overflow is not None and is_overflow(ids)):
            overflow_ids.update(ids)
            if check_overflow_claim is not None:
                check_overflow_claim(ids, label)
            continue
        if all(not truths[i]['valid'] for i in ids):
            continue
        groups.append(ids)
    check_partition(groups, label, overflow_ids)
    return groups
