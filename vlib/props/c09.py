"""C09 - cut-site coordinates are correct and strand-symmetric.

Monitor: DS / RS / RZ tags, qc-fail bit and rejection reason of NlaIIIFragment / CHICFragment objects built
from simulated reads (API) and of the records written by the real tagger (CLI) are compared with the
simulator's ground truth; every library is also mirrored onto the reverse-complemented reference and the
mirror relation (site, strand, validity, partition) is checked.
"""
import os
import io
import contextlib
from collections import defaultdict
from vlib.common import Acc, rng, Scratch
from vlib.sim import frags as F
from vlib.sim.bam import write_bam, make_seg, make_header, revcomp

PROPERTY = 'C09'
LEVEL = 'exploration'
RULE = ('fragments simulated from random references: both strands, paired and single end, 0..6 clipped bases at the read start, mismatch '
        'inside the motif, motif shifted by one cycle (with and without allow_cycle_shift), CHIC trimmed / untrimmed layouts, invert_strand, '
        'no_umi_cigar_processing; each library also mirrored onto the reverse-complemented reference. Non-trivial = fragment on the reverse '
        'strand or with a clip or cycle shift or broken motif; distinct = distinct (library seed, configuration, fragment id).'
        ' Plus cut sites on the first / last bases of contigs and scCHIC families of copies within 5 bp under assignment radius 5 (site tag after Molecule.write_tags on the original and the mirrored reference), scCHIC reads that start on the first / last base of a contig (site one or two bases outside), hard clips outside the soft clips, pairs whose read 2 is unmapped and handed over next to read 1.')
ASSUMPTIONS = ['NLA: the site is the reference coordinate of the C of CATG; CHIC: ligated base -1 (forward) / +1 (reverse)',
               'with no_umi_cigar_processing only the mirror relation is checked (the option defines the absolute value away)',
               'cycle-shifted reads are simulated without soft clip']
MIN_NONTRIVIAL = {'quick': 3000, 'thorough': 150000}
REQUIRED_MONITORS = ['obs:read_1_with_insertion_deletion_or_skip', 'obs:nla_fragments', 'obs:chic_fragments', 'obs:cycle_shift', 'obs:motif_broken', 'obs:clipped', 'mirror:fragments',
                     'cli:records_checked', 'obs:invert_strand', 'obs:single_end', 'obs:sites_at_contig_ends', 'obs:fragments_with_site_0', 'molecule:family_sites_compared', 'obs:non_default_primer_lengths', 'obs:chic_reads_starting_on_the_first_or_last_base', 'obs:hard_clipped', 'obs:read_2_unmapped_next_to_read_1', 'obs:switch_given_as_int', 'obs:switch_given_as_NoneType', 'no_overhang:fragments', 'no_overhang:too_far_from_any_motif', 'no_overhang:cli_records_checked']
SHARD_TIMEOUT = {'quick': 900, 'thorough': 5400}


def gen_cases(tier, seed):
    n = 240 if tier == 'quick' else 12000
    cases = [{'i': i, 'seed': seed} for i in range(n)]
    # restriction-digest libraries whose reads do not carry the overhang: the motif is looked up in the reference next to the read start
    cases += [{'kind': 'no_overhang', 'i': i, 'seed': seed} for i in range(24 if tier == 'quick' else 1200)]
    return cases


def mirror_records(gen, recs):
    """lay every record on the reverse-complemented reference"""
    lens = dict(gen.refs)
    out = []
    import re
    for rec in recs:
        m = dict(rec)
        name = gen.refs[rec['tid']][0]
        L = lens[name]
        if rec.get('cigar') is None:
            # an unmapped mate that is placed at its mate's position: it has no strand, it follows its mate
            m['flag'] = rec['flag'] ^ 32
            m['_follows_mate'] = True
            out.append(m)
            continue
        ops = re.findall(r'(\d+)([MIDNSH])', rec['cigar'])
        ref_len = sum(int(n) for n, o in ops if o in 'MDN')
        end = rec['pos'] + ref_len
        m['pos'] = L - end
        m['cigar'] = ''.join(f'{n}{o}' for n, o in reversed(ops))
        m['seq'] = revcomp(rec['seq'])
        m['qual'] = list(reversed(rec['qual']))
        m['flag'] = rec['flag'] ^ 16
        if rec['flag'] & 1:
            m['flag'] ^= 32
        m['tags'] = {k: v for k, v in rec['tags'].items() if k not in ('MD',)}
        m['_ref_end'] = L - rec['pos']
        out.append(m)
    # fix mate positions
    byname = defaultdict(list)
    for m in out:
        byname[m['name']].append(m)
    for name, ms in byname.items():
        if len(ms) == 2:
            for a_, b_ in ((ms[0], ms[1]), (ms[1], ms[0])):
                if a_.get('_follows_mate'):
                    a_['pos'] = b_['pos']
            ms[0]['next_pos'], ms[1]['next_pos'] = ms[1]['pos'], ms[0]['pos']
            ms[0]['tlen'], ms[1]['tlen'] = -ms[0].get('tlen', 0), -ms[1].get('tlen', 0)
    return out


def build_fragments(header, recs, fclass, fargs, qf):
    """-> {id: fragment}"""
    byid = defaultdict(dict)
    for rec in recs:
        rid = F.id_from_name(rec['name'])
        seg = make_seg(header, {k: v for k, v in rec.items() if not k.startswith('_')})
        byid[rid]['r1' if (rec['flag'] & 64 or not rec['flag'] & 1) else 'r2'] = seg
    out = {}
    for rid, d in byid.items():
        reads = [d.get('r1'), d.get('r2')]
        qf.digest(reads)
        out[rid] = fclass(reads, **fargs)
    return out


def observe(frag):
    r1 = frag.get_R1()
    return {'DS': r1.get_tag('DS') if r1.has_tag('DS') else None,
            'RS': r1.get_tag('RS') if r1.has_tag('RS') else None,
            'RZ': r1.get_tag('RZ') if r1.has_tag('RZ') else None,
            'RR': r1.get_tag('RR') if r1.has_tag('RR') else None,
            'qcfail': r1.is_qcfail, 'valid': frag.is_valid(), 'strand': frag.strand, 'match_hash': frag.match_hash}


def run_no_overhang(case):
    """NlaIII data without the CATG in the reads (-method nla_no_overhang / NlaIIIFragment(no_overhang=True, reference=...)): read 1 begins 0..3
    bases behind the motif; the site is the reference coordinate of the C of that CATG on either strand, the mirrored fragment gets the mirrored
    site, and a read further than 3 bases from any CATG is rejected."""
    import pysam
    import singlecellmultiomics.fragment as smf
    from singlecellmultiomics.universalBamTagger.universalBamTagger import QueryNameFlagger
    acc = Acc()
    r = rng(case['seed'], 'C09', 'no_overhang', case['i'])
    contigs = [(f'chr{j + 1}', r.choice([3000, 5000])) for j in range(r.randint(1, 2))]
    gen = F.Genome(r, contigs)
    lens = dict(contigs)
    recs, truths = [], {}
    rid = 1
    for name, ln in contigs:
        pos = 400
        while pos < ln - 500:
            gen.plant(name, pos)
            for _ in range(r.randint(1, 4)):
                reverse = r.random() < 0.5
                gap = r.choice([0, 0, 1, 2, 3, 3, 4, 5])
                single = r.random() < 0.25
                fr, tr = F.make_fragment(gen, r, rid, case['i'] + 1, 'nla', r.randint(1, 3), name, pos, reverse, F.rand_dna(r, 3), r.randint(80, 250),
                                         single_end=single)
                if fr is None:
                    continue
                k = 4 + gap
                r1 = fr[0]
                if not reverse:
                    r1['pos'] += k
                    r1['seq'], r1['qual'] = r1['seq'][k:], r1['qual'][k:]
                else:
                    r1['seq'], r1['qual'] = r1['seq'][:-k], r1['qual'][:-k]
                r1['cigar'] = f"{len(r1['seq'])}M"
                r1['tags'] = {}
                if len(fr) == 2:
                    fr[1]['next_pos'] = r1['pos']
                tr.update(kind='no_overhang', gap=gap)
                recs.extend(fr)
                truths[rid] = tr
                rid += 1
            pos += r.randint(350, 700)
    if not truths:
        return acc
    header = make_header(gen.refs)
    with Scratch('c09n') as dd:
        fa = gen.write_fasta(os.path.join(dd, 'ref.fa'))
        mfa = os.path.join(dd, 'mirror.fa')
        with open(mfa, 'w') as f:
            for n_, _ in gen.refs:
                f.write(f'>{n_}\n{revcomp(gen.get(n_))}\n')
        pysam.faidx(mfa)
        with pysam.FastaFile(fa) as ref, pysam.FastaFile(mfa) as mref:
            fargs = {'umi_hamming_distance': 0, 'no_overhang': True, 'reference': ref}
            frs = build_fragments(header, recs, smf.NlaIIIFragment, fargs, QueryNameFlagger())
            mfrs = build_fragments(header, mirror_records(gen, recs), smf.NlaIIIFragment, dict(fargs, reference=mref), QueryNameFlagger())
            for rid, t in truths.items():
                o, mo = observe(frs[rid]), observe(mfrs[rid])
                acc.evals += 1
                acc.count('no_overhang:fragments')
                strand_txt = 'reverse' if t['reverse'] else 'forward'
                wit = {'mode': 'no_overhang', 'truth': {k: str(v) for k, v in t.items() if k != 'key'}, 'observed': {k: str(v) for k, v in o.items()},
                       'mirror_observed': {k: str(v) for k, v in mo.items()},
                       'reads': [(x['flag'], x['pos'], x['cigar'], x['seq']) for x in recs if F.id_from_name(x['name']) == rid]}
                if t['gap'] <= 3:
                    if not o['valid'] or o['DS'] is None:
                        acc.violate(f'no-overhang:valid-fragment-rejected:{strand_txt}', f'{strand_txt} read 1 begins {t["gap"]} bases behind the CATG at {t["site"]} but the '
                                                                                         f'fragment was rejected (RR={o["RR"]})', wit)
                    elif o['DS'] != t['site']:
                        acc.violate(f'no-overhang:site-off:{strand_txt}', f'{strand_txt} fragment, gap {t["gap"]}: DS={o["DS"]} expected {t["site"]}', wit)
                    acc.sigs.add(f"n/{case['i']}/{rid}")
                else:
                    acc.count('no_overhang:too_far_from_any_motif')
                    if o['valid'] or o['DS'] is not None:
                        acc.violate('no-overhang:motifless-fragment-assigned-a-site', f'{strand_txt} read 1 begins {t["gap"]} bases behind the nearest CATG but got '
                                                                                      f'DS={o["DS"]} valid={o["valid"]}', wit)
                if o['valid'] != mo['valid']:
                    acc.violate('no-overhang:mirror-validity-differs', f'{strand_txt} fragment (gap {t["gap"]}): valid={o["valid"]}, its mirror image valid={mo["valid"]}', wit)
                elif o['valid'] and o['DS'] is not None and mo['DS'] is not None and mo['DS'] != lens[t['contig']] - 4 - o['DS']:
                    acc.violate('no-overhang:mirror-site-asymmetric', f'{strand_txt} fragment: DS={o["DS"]}, mirror DS={mo["DS"]} expected {lens[t["contig"]] - 4 - o["DS"]}', wit)
        # the command line route of the same data
        if case['i'] % 3 == 0:
            from singlecellmultiomics.universalBamTagger.bamtagmultiome import run_multiome_tagging_cmd
            bam = write_bam(os.path.join(dd, 'in.bam'), gen.refs, recs)
            out = os.path.join(dd, 'out.bam')
            try:
                with contextlib.redirect_stdout(io.StringIO()), contextlib.redirect_stderr(io.StringIO()):
                    run_multiome_tagging_cmd([bam, '-o', out, '-method', 'nla_no_overhang', '-ref', fa, '-umi_hamming_distance', '0'])
            except Exception as ex:
                acc.violate('no-overhang:cli-raised:' + type(ex).__name__, f'-method nla_no_overhang raised {ex!r}', {'mode': 'no_overhang'})
                return acc
            with pysam.AlignmentFile(out) as f:
                for a in f.fetch(until_eof=True):
                    if a.is_unmapped or a.is_read2:
                        continue
                    t = truths[F.id_from_name(a.query_name)]
                    acc.count('no_overhang:cli_records_checked')
                    ds = a.get_tag('DS') if a.has_tag('DS') else None
                    exp = t['site'] if t['gap'] <= 3 else None
                    if ds != exp:
                        acc.violate('no-overhang:cli-site-off', f'-method nla_no_overhang: read 1 of fragment {t["id"]} ({"reverse" if t["reverse"] else "forward"}, gap {t["gap"]}) '
                                                                f'DS={ds} expected {exp}', {'mode': 'no_overhang', 'truth': {k: str(v) for k, v in t.items() if k != 'key'}})
    acc.sample = {'mode': 'no_overhang', 'fragments': len(truths)}
    return acc


def run_case(case):
    if case.get('kind') == 'no_overhang':
        return run_no_overhang(case)
    import singlecellmultiomics.fragment as smf
    from singlecellmultiomics.universalBamTagger.universalBamTagger import QueryNameFlagger
    acc = Acc()
    r = rng(case['seed'], 'C09', case['i'])
    method = r.choice(['nla', 'nla', 'chic'])
    trimmed = r.random() < 0.5
    allow_shift = r.random() < 0.5
    invert = r.random() < 0.25
    nocigar = r.random() < 0.2
    contigs = [(f'chr{j + 1}', r.choice([3000, 9000])) for j in range(r.randint(1, 2))]
    gen = F.Genome(r, contigs)
    recs, truths = [], {}
    rid = 1
    n_sites = r.randint(3, 15)
    for _ in range(n_sites):
        name, ln = r.choice(contigs)
        pos = r.randrange(500, ln - 500)
        if method == 'nla':
            if gen.get(name)[pos - 6:pos + 10].count('CATG'):
                continue
            gen.plant(name, pos)
    # cut sites on the very first / last bases of a contig: coordinate 0 is a coordinate like any other, and the mirror image of a site at 0
    # is the site at the other end
    edge_sites = []
    for name, ln in contigs:
        if r.random() < 0.6:
            if method == 'nla':
                gen.plant(name, 0)
                gen.plant(name, ln - 4)
                edge_sites += [(name, 0), (name, ln - 4)]
            else:
                edge_sites += [(name, 1), (name, ln - 2)]
                # reads that begin on the very first base of the contig: the ligated base / the base next to it lies just outside (-1, -2),
                # the mirror image lies just beyond the other end
                edge_sites += [(name, 0), (name, ln - 1)]
                if trimmed:
                    edge_sites += [(name, -1), (name, ln)]
    acc.count('obs:sites_at_contig_ends', len(edge_sites))
    sites = []
    for name, ln in contigs:
        s = gen.get(name)
        if method == 'nla':
            j = s.find('CATG')
            while j != -1:
                if 450 < j < ln - 450:
                    sites.append((name, j))
                j = s.find('CATG', j + 1)
        else:
            sites += [(name, r.randrange(500, ln - 500)) for _ in range(n_sites)]
    family_of = {}
    for name, pos in sites + edge_sites:
        # scCHIC: a family of copies of one molecule (same cell, UMI, strand) whose cuts lie within 5 bp of each other - with an assignment
        # radius they are one molecule and the molecule rewrites their site tag
        fam = None
        if method == 'chic' and (name, pos) not in edge_sites and r.random() < 0.5:
            fam = {'cell': r.randint(1, 3), 'umi': F.rand_dna(r, 3), 'reverse': r.random() < 0.5, 'id': len(family_of) + 1000 * len(recs)}
        for _ in range(r.randint(1, 4) if fam is None else r.randint(2, 4)):
            kind = r.choice(['plain'] * 4 + ['clip', 'clip', 'shift', 'broken', 'single', 'mate_unmapped'])
            reverse = r.random() < 0.5
            if (name, pos) in edge_sites:
                reverse = pos > 10      # only the strand that points into the contig yields a fragment
            if fam is not None:
                kind, reverse = 'plain', fam['reverse']
            kw = {}
            if kind == 'clip':
                kw['clip'] = r.randint(1, 6)
            if kind == 'shift' and method == 'nla':
                kw['cycle_shift'] = True
            if kind == 'broken' and method == 'nla':
                kw['motif_ok'] = False
            if kind == 'single':
                kw['single_end'] = True
            if kind == 'plain' and case['i'] % 2 == 1 and (rid + case['i']) % 3 == 0:
                # read 1 aligned with an insertion, a deletion or a skip (net length difference 1-12): the cut site stays at the ligated end
                kw['r1_indel'] = (('I', 'D', 'N')[(rid // 3) % 3], (1, 2, 3, 5, 12)[(rid // 9) % 5])
            fr, tr = F.make_fragment(gen, r, rid, case['i'] + 1, method, r.randint(1, 3) if fam is None else fam['cell'], name,
                                     pos if fam is None else pos + r.randint(0, 5), reverse, F.rand_dna(r, 3) if fam is None else fam['umi'],
                                     r.randint(60, 300), chic_trimmed=trimmed, mismatches=r.choice([0, 0, 1]), r1_len=r.choice([25, 40, 40, 55]), **kw)
            if fr is None:
                continue
            if kind == 'mate_unmapped' and len(fr) == 2:
                # read 2 did not align: it is stored unmapped at read 1's position and reaches the fragment class next to its mate
                r1_, r2_ = fr
                r1_['flag'] = (r1_['flag'] | 8) & ~2 & ~32
                r1_['tlen'], r1_['next_pos'] = 0, r1_['pos']
                fr[1] = dict(r2_, flag=1 | 4 | 128 | (32 if r1_['flag'] & 16 else 0), pos=r1_['pos'], cigar=None, mapq=0, tags={}, next_pos=r1_['pos'], tlen=0)
                tr['mate_unmapped'] = True
            if r.random() < 0.15:
                # hard clips (bases the aligner removed from the record) outside everything else, on either end of either mate
                tr['hard_clipped'] = F.add_hard_clips(r, fr)
            tr['kind'] = kind
            if fam is not None:
                family_of[rid] = fam['id']
            recs.extend(fr)
            truths[rid] = tr
            rid += 1
    if not truths:
        return acc
    header = make_header(gen.refs)
    fclass = smf.NlaIIIFragment if method == 'nla' else smf.CHICFragment
    fargs = {'umi_hamming_distance': 0}
    if r.random() < 0.4:
        # options of the fragment classes that concern consensus masking, not the cut site
        fargs['R1_primer_length'] = r.choice([0, 6, 8])
        fargs['R2_primer_length'] = r.choice([0, 6])
        acc.count('obs:non_default_primer_lengths')
    if method == 'nla' and allow_shift:
        fargs['allow_cycle_shift'] = True
    if invert:
        fargs['invert_strand'] = True
        acc.count('obs:invert_strand')
    if nocigar:
        fargs['no_umi_cigar_processing'] = True
    elif case['i'] % 3 == 2:
        # the switch given explicitly as "off", in the forms option values arrive in: False, 0, a numpy boolean (option sweeps), None (dict.get)
        import numpy as _np
        fargs['no_umi_cigar_processing'] = [False, 0, _np.bool_(False), None][(case['i'] // 3) % 4]
        acc.count('obs:switch_given_as_' + type(fargs['no_umi_cigar_processing']).__name__)
    cfg = {'method': method, 'trimmed': trimmed, 'allow_cycle_shift': allow_shift, 'invert_strand': invert, 'no_umi_cigar_processing': nocigar}
    qf = QueryNameFlagger()
    frs = build_fragments(header, recs, fclass, fargs, qf)
    mrecs = mirror_records(gen, recs)
    # the mirrored reads live on the reverse complemented reference; lengths are equal so the same header works
    mfrs = build_fragments(header, mrecs, fclass, fargs, QueryNameFlagger())
    lens = dict(gen.refs)
    for rid, t in truths.items():
        o = observe(frs[rid])
        mo = observe(mfrs[rid])
        acc.evals += 1
        acc.count('obs:nla_fragments' if method == 'nla' else 'obs:chic_fragments')
        kind = t['kind']
        if t['cycle_shift']:
            acc.count('obs:cycle_shift')
        if kind == 'broken' and method == 'nla':
            acc.count('obs:motif_broken')
        if t['clip']:
            acc.count('obs:clipped')
        if t['single_end']:
            acc.count('obs:single_end')
        if t.get('hard_clipped'):
            acc.count('obs:hard_clipped')
        if t.get('r1_gap'):
            acc.count('obs:read_1_with_insertion_deletion_or_skip')
        if t.get('mate_unmapped'):
            acc.count('obs:read_2_unmapped_next_to_read_1')
        wit = {'config': cfg, 'truth': {k: v for k, v in t.items() if k != 'key'}, 'observed': {k: str(v) for k, v in o.items()},
               'mirror_observed': {k: str(v) for k, v in mo.items()},
               'reads': [(x['flag'], x['pos'], x['cigar'], x['seq']) for x in recs if F.id_from_name(x['name']) == rid]}
        strand_txt = 'reverse' if t['reverse'] else 'forward'
        if t['site'] == 0:
            acc.count('obs:fragments_with_site_0')
        if method == 'chic' and (t['site'] < 0 or t['site'] >= lens[t['contig']]):
            acc.count('obs:chic_reads_starting_on_the_first_or_last_base')
        expect_valid = True
        if method == 'nla':
            if kind == 'broken':
                expect_valid = False
            if t['cycle_shift'] and not allow_shift:
                expect_valid = False
        # ---- absolute truth
        if not nocigar:
            if expect_valid:
                if not o['valid'] or o['qcfail']:
                    mech = f'valid-{"cycle-shifted-" if t["cycle_shift"] else ""}fragment-rejected:{strand_txt}'
                    acc.violate(mech, f'{method} {strand_txt} fragment {rid} ({kind}) should be valid but was rejected (RR={o["RR"]}) ({cfg})', wit)
                elif o['DS'] != t['site']:
                    mech = f'site-off:{method}:{strand_txt}:{"clip" if t["clip"] else "shift" if t["cycle_shift"] else "plain"}'
                    acc.violate(mech, f'{method} {strand_txt} fragment {rid} ({kind}, clip {t["clip"]}): DS={o["DS"]} expected {t["site"]} ({cfg})', wit)
                else:
                    exp_rs = (not t['reverse']) if invert else t['reverse']
                    if o['RS'] is None or bool(o['RS']) != exp_rs:
                        acc.violate('strand-tag-wrong', f'{method} fragment {rid}: RS={o["RS"]} expected {exp_rs} ({cfg})', wit)
                    if method == 'nla':
                        exp_rz = 'CATG' if not t['cycle_shift'] else ('ATG' if not t['reverse'] else 'CAT')
                        if o['RZ'] != exp_rz:
                            acc.violate('recognised-sequence-wrong', f'nla fragment {rid}: RZ={o["RZ"]} expected {exp_rz} ({cfg})', wit)
            else:
                if o['valid'] or o['DS'] is not None:
                    mech = 'motifless-fragment-assigned-a-site' if kind == 'broken' else 'cycle-shift-accepted-without-option'
                    acc.violate(mech, f'{method} {strand_txt} fragment {rid} ({kind}) must be rejected but valid={o["valid"]} DS={o["DS"]} RZ={o["RZ"]} ({cfg})', wit)
                elif not o['qcfail']:
                    acc.violate('rejected-fragment-not-qcfail', f'{method} fragment {rid} ({kind}) is invalid but the qc-fail bit is not set', wit)
        # ---- mirror relation
        acc.count('mirror:fragments')
        L = lens[t['contig']]
        if o['valid'] != mo['valid']:
            acc.violate(f'mirror-validity-differs:{"shift" if t["cycle_shift"] else kind}',
                        f'{method} fragment {rid} ({kind}, {strand_txt}): valid={o["valid"]} but its mirror image valid={mo["valid"]} ({cfg})', wit)
        elif o['valid'] and o['DS'] is not None and mo['DS'] is not None:
            exp_m = (L - 4 - o['DS']) if method == 'nla' else (L - 1 - o['DS'])
            if mo['DS'] != exp_m:
                acc.violate(f'mirror-site-asymmetric:{method}:{"clip" if t["clip"] else "shift" if t["cycle_shift"] else "plain"}',
                            f'{method} fragment {rid} ({kind}, {strand_txt}): DS={o["DS"]}, mirror DS={mo["DS"]} expected {exp_m} (L={L}) ({cfg})', wit)
            if o['RS'] is not None and mo['RS'] is not None and bool(o['RS']) == bool(mo['RS']):
                acc.violate('mirror-strand-not-flipped', f'{method} fragment {rid}: RS={o["RS"]} mirror RS={mo["RS"]}', wit)
        if t['reverse'] or t['clip'] or t['cycle_shift'] or kind == 'broken':
            acc.sigs.add(f"{case['i']}/{rid}/{sorted(cfg.items())}")
    # mirrored library deduplicates into the same partition (equality of fragments, exact UMIs)
    ids = sorted(i for i in truths if frs[i].is_valid() and mfrs[i].is_valid())
    for a in range(len(ids)):
        for b in range(a + 1, min(len(ids), a + 12)):
            i, j = ids[a], ids[b]
            e1 = bool(frs[i] == frs[j])
            e2 = bool(mfrs[i] == mfrs[j])
            if e1 != e2:
                acc.violate('mirror-deduplication-differs', f'fragments {i},{j}: equal={e1} on the original strand but {e2} on the mirrored reference ({cfg})',
                            {'config': cfg, 'a': {k: str(v) for k, v in truths[i].items()}, 'b': {k: str(v) for k, v in truths[j].items()}})
    # ------------------------------------------------------------------ molecule level (scCHIC with an assignment radius)
    if method == 'chic' and family_of and not invert and not nocigar:
        import singlecellmultiomics.molecule as smm
        fargs_r = dict(fargs, assignment_radius=5)
        sites_by_id = {}
        groups_ = {}
        for label, rset in (('original', recs), ('mirror', mrecs)):
            # the real grouping code: the molecule iterator (default pooling) fed with the read pairs in coordinate order
            frr = build_fragments(header, rset, fclass, fargs_r, qf)
            order = sorted(frr, key=lambda i: (frr[i].get_R1().reference_id, min(x.reference_start for x in frr[i].reads if x is not None and x.reference_start is not None), i))
            pairs_ = [tuple(frr[i].reads) for i in order]
            with contextlib.redirect_stdout(io.StringIO()):
                mols = list(smm.MoleculeIterator(pairs_, molecule_class=smm.CHICMolecule, fragment_class=fclass, fragment_class_args=dict(fargs_r), yield_invalid=True))
            groups_[label] = set()
            for m_ in mols:
                m_.write_tags()
                ids_ = frozenset(F.id_from_name([x for x in fr_ if x is not None][0].query_name) for fr_ in m_)
                groups_[label].add(ids_)
                for fr_ in m_:
                    r1_ = fr_.get_R1()
                    if r1_ is not None:
                        sites_by_id.setdefault(F.id_from_name(r1_.query_name), {})[label] = r1_.get_tag('DS') if r1_.has_tag('DS') else None
        # grouping with a radius is a greedy chain: which fragments end up together is only well defined when everything that can chain with the
        # family (same cell, UMI, strand and contig, linked by steps of <= 5) lies within 5 bases - a longer chain is cut at a place that depends
        # on the direction it is walked in, and the two orientations then legitimately differ
        def _chain_key(j):
            t_ = truths[j]
            return (t_['sample'], t_['umi'], t_['reverse'], t_['contig'])
        by_chain = defaultdict(list)
        for j, t_ in truths.items():
            if t_.get('site') is not None:
                by_chain[_chain_key(j)].append(t_['site'])
        for i, fid in family_of.items():
            d_ = sites_by_id.get(i, {})
            if d_.get('original') is None or d_.get('mirror') is None:
                continue
            comp = {truths[i]['site']}
            grew = True
            while grew:
                grew = False
                for s_ in by_chain[_chain_key(i)]:
                    if s_ not in comp and any(abs(s_ - c_) <= 5 for c_ in comp):
                        comp.add(s_)
                        grew = True
            if max(comp) - min(comp) > 5:
                acc.count('molecule:family_in_a_chain_longer_than_the_radius_skipped')
                continue
            acc.count('molecule:family_sites_compared')
            g_o = next((g for g in groups_['original'] if i in g), None)
            g_m = next((g for g in groups_['mirror'] if i in g), None)
            if g_o != g_m:
                acc.violate('mirror-deduplication-differs:molecule-with-radius',
                            f'scCHIC fragment {i} ({"reverse" if truths[i]["reverse"] else "forward"} strand) of a family of copies within 5 bp, assignment radius 5: grouped with '
                            f'{sorted(g_o or [])} on the original strand but with {sorted(g_m or [])} on the mirrored reference ({cfg})',
                            {'config': cfg, 'family': [(j, truths[j]['site'], truths[j]['reverse'], truths[j]['r1']) for j, f2 in family_of.items() if f2 == fid]})
                continue
            L_ = lens[truths[i]['contig']]
            if d_['mirror'] != L_ - 1 - d_['original']:
                acc.violate('mirror-site-asymmetric:chic:molecule-with-radius',
                            f'scCHIC fragment {i} of a family of copies within 5 bp ({"reverse" if truths[i]["reverse"] else "forward"} strand), assignment radius 5: after '
                            f'the molecule wrote its tags DS={d_["original"]}, on the mirrored reference DS={d_["mirror"]} expected {L_ - 1 - d_["original"]} ({cfg})',
                            {'config': cfg, 'family': [(j, truths[j]['site'], truths[j]['reverse']) for j, f2 in family_of.items() if f2 == fid]})
    # ------------------------------------------------------------------ CLI
    if case['i'] % 3 == 0 and not invert:
        import pysam
        from singlecellmultiomics.universalBamTagger.bamtagmultiome import run_multiome_tagging_cmd
        with Scratch('c09') as dd:
            bam = write_bam(os.path.join(dd, 'in.bam'), gen.refs, recs)
            out = os.path.join(dd, 'out.bam')
            cmd = [bam, '-o', out, '-method', method, '-umi_hamming_distance', '0']
            if method == 'nla' and allow_shift:
                cmd.append('--allow_cycle_shift')
            if nocigar:
                cmd.append('--no_umi_cigar_processing')
            with contextlib.redirect_stdout(io.StringIO()), contextlib.redirect_stderr(io.StringIO()):
                run_multiome_tagging_cmd(cmd)
            with pysam.AlignmentFile(out) as f:
                for a in f.fetch(until_eof=True):
                    if a.is_unmapped:
                        continue    # the unmapped mate of a pair carries no site of its own
                    acc.count('cli:records_checked')
                    rid = F.id_from_name(a.query_name)
                    t = truths[rid]
                    o = observe(frs[rid])
                    ds = a.get_tag('DS') if a.has_tag('DS') else None
                    if ds != o['DS'] or a.is_qcfail != o['qcfail']:
                        acc.violate('cli-differs-from-api', f'record {a.query_name}: CLI DS={ds} qcfail={a.is_qcfail}, API DS={o["DS"]} qcfail={o["qcfail"]} ({cfg})',
                                    {'config': cfg, 'truth': {k: str(v) for k, v in t.items()}})
    else:
        acc.count('cli:records_checked', 0)
    acc.sample = {'config': cfg, 'fragments': len(truths), 'kinds': {k: sum(1 for t in truths.values() if t['kind'] == k) for k in ('plain', 'clip', 'shift', 'broken', 'single')},
                  'example': {k: str(v) for k, v in list(truths.values())[0].items() if k in ('site', 'reverse', 'clip', 'r1', 'r2', 'kind')}}
    return acc
