"""C13 - the molecule consensus is the strict majority call and never reports a tie.

Monitor: the dictionary returned by Molecule.get_consensus (plain and dove_safe) on molecules assembled from
generated fragments is compared with a brute-force per-position vote; the same fragments are inserted in every
order (all n! for n<=5, sampled beyond) and every fragment is duplicated.
"""
import itertools
from collections import defaultdict, Counter
from vlib.common import Acc, rng
from vlib.sim.bam import make_seg, make_header
from vlib.sim.frags import md_nm, rand_dna

PROPERTY = 'C13'
LEVEL = 'exploration'
RULE = ('molecules of 1..12 fragments on a random reference: random overlaps between mates and between fragments, mismatches, N calls, '
        'equal and unequal mate qualities at disagreeing positions, single-end fragments, fragments without R1, dove-tailed mates; '
        'get_consensus() and get_consensus(dove_safe=True); all insertion orders for n<=5 (50 sampled beyond) and duplication of every '
        'fragment. Non-trivial = molecule with at least one tied position or mate disagreement; distinct = distinct (molecule seed, variant).'
        ' Plus both request forms (plain / with_probs_and_obs), alternating plain and dove-safe requests on shared Fragment objects, growth histories, molecules of 255-300 stacked fragments, reads with insertions, deletions and skips (also of equal total length within one read).')
ASSUMPTIONS = ['fragments are forced into one molecule through the internal add so the equality rules do not filter the input',
               'each fragment with a read 1 contributes one call per position: the higher-quality mate; equal quality with different bases, or N: no vote']
MIN_NONTRIVIAL = {'quick': 300, 'thorough': 30000}
REQUIRED_MONITORS = ['lib:window_ends_at_contig_start', 'ret:get_consensus', 'ret:get_consensus_dove_safe', 'oracle:positions_compared', 'oracle:tied_positions', 'meta:permutations', 'meta:duplications', 'history:repeated_requests', 'history:grown_molecule', 'lib:deep_molecules', 'ret:get_consensus_with_probs_and_obs', 'ret:get_consensus_base', 'lib:gapped_reads', 'ret:get_consensus_dove_safe_with_distances']
SHARD_TIMEOUT = {'quick': 900, 'thorough': 5400}
REF_LEN = 400


def gen_cases(tier, seed):
    n = 320 if tier == 'quick' else 30000
    return [{'i': i, 'seed': seed} for i in range(n)]


def mutate(r, ref_sub, p_mm, p_n):
    out = []
    for c in ref_sub:
        x = r.random()
        if x < p_n:
            out.append('N')
        elif x < p_n + p_mm:
            out.append(r.choice([b for b in 'ACGT' if b != c]))
        else:
            out.append(c)
    return ''.join(out)


GAPPED = [0]


def gap_read(r, ref, a, seq):
    """turn the ungapped read `seq` (aligned at a) into a gapped alignment: insertion(s) and deletion(s) / skips, also of equal total length
    (the read then spans exactly as many reference bases as it has bases). Returns (cigar, seq, MD, NM) or None when the read is too short."""
    n = len(seq)
    if n < 24 or a + n + 6 > len(ref):
        return None
    style = r.choice(['ins', 'del', 'ins_del', 'del_ins', 'ins_skip', 'ins_del'])
    k = r.randint(1, 3)
    p1 = r.randint(5, n // 2 - 3)
    p2 = r.randint(n // 2 + 1, n - 6 - k)
    ins = ''.join(r.choice('ACGT') for _ in range(k))
    # ops: list of (op, length); the read bases of the M parts are taken from `seq` (already mutated), shifted as the gaps demand
    if style == 'ins':
        ops = [('M', p1), ('I', k), ('M', n - p1 - k)]
    elif style == 'del':
        ops = [('M', p1), ('D', k), ('M', n - p1)]
    elif style == 'ins_del':
        ops = [('M', p1), ('I', k), ('M', p2 - p1), ('D', k), ('M', n - p2 - k)]
    elif style == 'del_ins':
        ops = [('M', p1), ('D', k), ('M', p2 - p1), ('I', k), ('M', n - p2 - k)]
    else:
        ops = [('M', p1), ('I', k), ('M', p2 - p1), ('N', k), ('M', n - p2 - k)]
    out, md, nm, run = [], [], 0, 0
    rp = a
    qi = 0
    for op, ln in ops:
        if op == 'M':
            for j in range(ln):
                # keep what the ungapped read showed relative to ITS reference base: a match stays a match, a mismatch / N keeps its read base
                b = seq[qi] if seq[qi] != ref[a + qi] else ref[rp + j]
                qi += 1
                out.append(b)
                if b == ref[rp + j]:
                    run += 1
                else:
                    md.append(str(run))
                    md.append(ref[rp + j])
                    run = 0
                    nm += 1
            rp += ln
        elif op == 'I':
            out.append(ins)
            nm += ln
        elif op == 'D':
            md.append(str(run))
            md.append('^' + ref[rp:rp + ln])
            run = 0
            nm += ln
            rp += ln
        else:
            rp += ln
    md.append(str(run))
    return ''.join(f'{ln}{op}' for op, ln in ops), ''.join(out), ''.join(md), nm


def make_frag_spec(r, ref, fid, hot, stacked=False, origin=None):
    """returns dict(reads=[rec or None, rec or None]) ; hot = positions where disagreement is concentrated;
    stacked: all fragments of the molecule share one geometry, so every position is covered by every fragment"""
    L = len(ref)
    kind = r.choice(['pair'] * 6 + ['single', 'no_r1', 'dove', 'same_orientation'])
    l1, l2 = r.randint(15, 40), r.randint(15, 40)
    reverse = r.random() < 0.5
    s = r.randint(20, L - 120)
    if kind == 'dove':
        # R2 extends beyond the start of R1 (dovetail)
        flen = r.randint(10, 30)
    else:
        flen = r.randint(20, 90)
    if stacked:
        kind, l1, l2, reverse, s, flen = 'pair', 40, 40, False, 100, 60
    if not reverse:
        r1s, r1e = s, s + l1
        r2e = s + max(flen, 5)
        r2s = r2e - l2
        if kind == 'dove':
            r2s = s - r.randint(1, 8)
            r2e = r2s + l2
    else:
        r1e = s + 60
        r1s = r1e - l1
        r2s = r1e - max(flen, 5)
        r2e = r2s + l2
        if kind == 'dove':
            r2e = r1e + r.randint(1, 8)
            r2s = r2e - l2
    if origin is not None:
        # a fragment at the very start of the contig whose mate-overlap-safe window ends at (or next to) coordinate 0: the window is
        # empty or holds position 0 only, whatever the mates cover beyond it
        d1, d2 = origin
        kind = 'pair'
        wobble = r.choice([0, 0, 0, 1, -1, 2])
        if not reverse:
            r1s, r1e = 0, l1
            r2s, r2e = 0, max(1, d2 + 1 + wobble)
        else:
            r1s, r1e = 0, max(1, d1 + 1 + wobble)
            r2s, r2e = 0, l2
    r1s, r2s = max(0, r1s), max(0, r2s)
    qmode = r.choice(['flat_equal', 'random', 'r1_better', 'r2_better'])
    flat_q = r.choice([30, 30, 30, 0])

    def quals(n, who):
        if qmode == 'flat_equal':
            return [flat_q] * n
        if qmode == 'random':
            return [r.choice([10, 20, 30, 30, 37, 0, 0, 1]) for _ in range(n)]      # phred 0 is a quality like any other
        if (qmode == 'r1_better') == (who == 1):
            return [37] * n
        return [20] * n
    p_mm, p_n = r.choice([(0.0, 0.0), (0.05, 0.02), (0.2, 0.05)])
    recs = []
    for who, (a, b) in ((1, (r1s, r1e)), (2, (r2s, r2e))):
        b = min(b, L)
        sub = ref[a:b]
        seq = mutate(r, sub, p_mm, p_n)
        seq = list(seq)
        for h in hot:
            if a <= h < b and r.random() < 0.6:
                seq[h - a] = r.choice('ACGTN')
        seq = ''.join(seq)
        md, nm = md_nm(sub, seq)
        cigar = f'{len(seq)}M'
        if not stacked and r.random() < 0.12:
            g = gap_read(r, ref, a, seq)
            if g is not None:
                cigar, seq, md, nm = g
                GAPPED[0] += 1
        rev = reverse if who == 1 else (not reverse)
        if kind == 'same_orientation' and who == 2:
            rev = reverse
        flag = 1 | (64 if who == 1 else 128) | (16 if rev else 0)
        recs.append({'name': f'f{fid}', 'flag': flag, 'tid': 0, 'pos': a, 'mapq': 60, 'cigar': cigar, 'seq': seq, 'qual': quals(len(seq), who),
                     'tags': {'MD': md, 'NM': nm, 'SM': 'cell', 'RX': 'ACG'}, 'next_tid': 0, 'next_pos': 0})
    if kind == 'single':
        recs[1] = None
        recs[0]['flag'] = 64 | (16 if reverse else 0)
    if kind == 'no_r1':
        recs[0] = None
    return {'kind': kind, 'recs': recs}


def aligned_bases(rec):
    """(reference position, base, quality) of every aligned base of a simulator record, following its CIGAR"""
    import re
    qp, rp = 0, rec['pos']
    for n, op in re.findall(r'(\d+)([MIDNS=X])', rec['cigar']):
        n = int(n)
        if op in 'M=X':
            for k in range(n):
                yield rp + k, rec['seq'][qp + k], rec['qual'][qp + k]
            qp += n
            rp += n
        elif op in 'IS':
            qp += n
        else:
            rp += n


def ref_end(rec):
    import re
    return rec['pos'] + sum(int(n) for n, op in re.findall(r'(\d+)([MIDNS=X])', rec['cigar']) if op in 'MDN=X')


DOVE_DIST = [(0, 0)]


def oracle(frags, dove_safe, pos_filter=None):
    votes = defaultdict(Counter)
    ties = 0
    disagree = 0
    for f in frags:
        r1, r2 = f['recs']
        if r1 is None:
            continue
        if dove_safe and r2 is None:
            continue
        lo, hi = None, None
        if dove_safe:
            rev1 = bool(r1['flag'] & 16)
            rev2 = bool(r2['flag'] & 16)
            e1, e2 = ref_end(r1), ref_end(r2)
            d1, d2 = DOVE_DIST[0]    # bases trimmed from the 5' end of the mate each distance is named after
            if rev1 and not rev2:
                lo, hi = r2['pos'] + d2, e1 - 1 - d1
            elif not rev1 and rev2:
                lo, hi = r1['pos'] + d1, e2 - 1 - d2
            else:
                continue
        calls = defaultdict(list)
        for rec in (r1, r2):
            if rec is None:
                continue
            for p, b, q in aligned_bases(rec):
                if lo is not None and not (lo <= p <= hi):
                    continue
                if pos_filter is not None and not pos_filter(p):
                    continue
                calls[p].append((b, q))
        for p, cs in calls.items():
            if len(cs) == 1:
                b, q = cs[0]
            else:
                (b1, q1), (b2, q2) = cs
                if b1 != b2:
                    disagree += 1
                if q1 > q2:
                    b = b1
                elif q2 > q1:
                    b = b2
                elif b1 == b2:
                    b = b1
                else:
                    b = 'N'
            if b == 'N':
                continue
            votes[p][b] += 1
    cons = {}
    for p, c in votes.items():
        top = c.most_common()
        if len(top) > 1 and top[0][1] == top[1][1]:
            ties += 1
            continue
        cons[p] = top[0][0]
    return cons, ties, disagree


def run_case(case):
    from singlecellmultiomics.fragment import Fragment
    from singlecellmultiomics.molecule import Molecule
    acc = Acc()
    GAPPED[0] = 0
    r = rng(case['seed'], 'C13', case['i'])
    ref = rand_dna(r, REF_LEN)
    header = make_header([('chr1', REF_LEN)])
    n = r.choice([1, 2, 2, 3, 3, 4, 5, 6, 8, 12])
    if case['i'] % 40 == 7:
        # a deeply sequenced molecule: per-position vote counters pass 255 / 256
        n = r.choice([255, 256, 257, 258, 300])
        acc.count('lib:deep_molecules')
    hot = [r.randint(30, 200) for _ in range(r.randint(0, 6))]
    frags = [make_frag_spec(r, ref, i, hot, stacked=n > 100) for i in range(n)]
    dd = (r.choice([0, 3, 8]), r.choice([0, 6, 12])) if case['i'] % 3 == 1 else (0, 0)
    if case['i'] % 5 == 3 and n <= 100:
        ro = rng(case['seed'], 'C13', 'origin', case['i'])
        for i in range(0, n, 2):
            frags[i] = make_frag_spec(ro, ref, i, [ro.randint(0, 12) for _ in range(3)], origin=dd)
        acc.count('lib:window_ends_at_contig_start')
    # make overlaps likely: shift every fragment near a common anchor
    def build(order, dup=False):
        m = Molecule()
        seq = list(order) + (list(order) if dup else [])
        for idx in seq:
            f = frags[idx]
            reads = [make_seg(header, rec) if rec is not None else None for rec in f['recs']]
            fr = Fragment(reads, umi_hamming_distance=0)
            m._add_fragment(fr)
        return m

    # the consensus can be requested plainly or together with the per-base probabilities and observations (the form the methylation
    # callers use): the calls are the same
    want_obs = [r.random() < 0.4]

    # the mate-overlap-safe window can be narrowed by a distance per mate (dove_R1_distance / dove_R2_distance); a third of the molecules are
    # requested with two different distances
    DOVE_DIST[0] = dd

    def observe(m, dove):
        kw = {}
        if dove and DOVE_DIST[0] != (0, 0):
            kw = {'dove_R1_distance': DOVE_DIST[0][0], 'dove_R2_distance': DOVE_DIST[0][1]}
            acc.count('ret:get_consensus_dove_safe_with_distances')
        if want_obs[0]:
            acc.count('ret:get_consensus_with_probs_and_obs')
            got = m.get_consensus(dove_safe=dove, with_probs_and_obs=True, **kw)[0]
        else:
            got = m.get_consensus(dove_safe=dove, **kw)
        return {k[1]: v for k, v in got.items()}
    wit = {'fragments': [[(x['flag'], x['pos'], x['seq'], x['qual'][:3]) if x else None for x in f['recs']] for f in frags]}
    for dove in (False, True):
        exp, ties, disagree = oracle(frags, dove)
        try:
            got = observe(build(range(n)), dove)
        except Exception as ex:
            acc.violate('get_consensus-raised:' + type(ex).__name__, f'get_consensus(dove_safe={dove}) raised {ex!r}', wit)
            continue
        acc.evals += 1
        acc.count('ret:get_consensus_dove_safe' if dove else 'ret:get_consensus')
        acc.count('oracle:positions_compared', len(set(got) | set(exp)))
        acc.count('oracle:tied_positions', ties)
        if got != exp:
            extra = {p: got[p] for p in got if p not in exp}
            missing = {p: exp[p] for p in exp if p not in got}
            wrong = {p: (got[p], exp[p]) for p in got if p in exp and got[p] != exp[p]}
            if extra:
                mech = 'tie-or-uncalled-position-reported'
            elif wrong:
                mech = 'not-the-majority-base'
            else:
                mech = 'majority-position-missing'
            acc.violate(mech + (':dove_safe' if dove else ''), f'get_consensus(dove_safe={dove}): extra {dict(list(extra.items())[:4])} missing {dict(list(missing.items())[:4])} '
                                                                f'wrong(got,expected) {dict(list(wrong.items())[:4])}', dict(wit, dove_safe=dove))
        # ---- metamorphic: insertion order and duplication
        perms = list(itertools.permutations(range(n))) if n <= 5 else [tuple(r.sample(range(n), n)) for _ in range(50 if n <= 50 else 2)]
        if len(perms) > 24:
            perms = r.sample(perms, 24) if n <= 5 and case['i'] % 4 else perms[:50]
        for perm in perms:
            g2 = observe(build(perm), dove)
            acc.count('meta:permutations')
            if g2 != got:
                acc.violate('consensus-depends-on-insertion-order', f'order {perm} gives a different consensus than {tuple(range(n))} (dove_safe={dove})', dict(wit, order=perm))
                break
        g3 = observe(build(range(n), dup=True), dove)
        acc.count('meta:duplications')
        if g3 != got:
            acc.violate('consensus-changes-when-every-fragment-is-duplicated', f'duplicating every fragment changes the consensus (dove_safe={dove})', wit)
        if ties or disagree:
            acc.sigs.add(f"{case['i']}/{dove}")
    DOVE_DIST[0] = (0, 0)
    # ---- the per-position accessor answers like the consensus (None where the consensus has no call)
    exp_plain = oracle(frags, False)[0]
    m0 = build(range(n))
    probe = sorted(set(list(exp_plain)[:12] + r.sample(range(60, 260), 8) + hot))
    for p_ in probe:
        try:
            g_ = m0.get_consensus_base('chr1', p_)
        except Exception as ex:
            acc.violate('get_consensus_base-raised:' + type(ex).__name__, f'get_consensus_base(chr1, {p_}) raised {ex!r}', wit)
            break
        acc.count('ret:get_consensus_base')
        if g_ != exp_plain.get(p_):
            acc.violate('get_consensus_base-differs-from-majority', f'get_consensus_base(chr1, {p_}) returned {g_!r}, the strict majority of the fragment calls is '
                                                                    f'{exp_plain.get(p_)!r}', dict(wit, position=p_))
            break
    # ---- histories on the same objects: alternate the two kinds of request on one molecule, share the Fragment objects between two
    # molecules (other order / every fragment twice), and ask again after the molecule has grown
    exps = {dove: oracle(frags, dove)[0] for dove in (False, True)}
    objs = [Fragment([make_seg(header, rec) if rec is not None else None for rec in f['recs']], umi_hamming_distance=0) for f in frags]
    first = r.random() < 0.5
    m1 = Molecule()
    for fr in objs:
        m1._add_fragment(fr)
    order2 = r.sample(range(n), n)
    m2 = Molecule()
    for idx in order2 + (order2 if r.random() < 0.5 else []):
        m2._add_fragment(objs[idx])
    for step, (mol, dove) in enumerate([(m1, first), (m1, not first), (m1, first), (m2, not first), (m2, first)]):
        try:
            g = observe(mol, dove)
        except Exception as ex:
            acc.violate('get_consensus-raised:' + type(ex).__name__, f'history step {step}: get_consensus(dove_safe={dove}) raised {ex!r}', wit)
            break
        acc.count('history:repeated_requests')
        if g != exps[dove]:
            extra = sorted(set(g) - set(exps[dove]))
            missing = sorted(set(exps[dove]) - set(g))
            acc.violate('consensus-depends-on-earlier-requests', f'step {step} of the history [first request dove_safe={first}, then alternating, then a second molecule '
                                                                 f'sharing the fragments]: get_consensus(dove_safe={dove}) has {len(extra)} unexpected positions {extra[:6]}, '
                                                                 f'{len(missing)} missing {missing[:6]}', dict(wit, first_request_dove_safe=first, step=step))
            break
    if n >= 2:
        cut = r.randint(1, n - 1)
        m3 = Molecule()
        for idx in range(cut):
            m3._add_fragment(Fragment([make_seg(header, rec) if rec is not None else None for rec in frags[idx]['recs']], umi_hamming_distance=0))
        dove = r.random() < 0.5
        before = observe(m3, dove)
        exp_before = oracle(frags[:cut], dove)[0]
        for idx in range(cut, n):
            m3._add_fragment(Fragment([make_seg(header, rec) if rec is not None else None for rec in frags[idx]['recs']], umi_hamming_distance=0))
        after = observe(m3, dove)
        acc.count('history:grown_molecule')
        if before != exp_before or after != exps[dove]:
            acc.violate('consensus-stale-after-growth', f'molecule asked after {cut} fragments and again after {n}: first answer correct={before == exp_before}, '
                                                        f'second answer correct={after == exps[dove]} (dove_safe={dove})', dict(wit, cut=cut, dove_safe=dove))
    acc.sample = {'fragments': n, 'kinds': [f['kind'] for f in frags], 'hot_positions': hot,
                  'first_fragment': [(x['flag'], x['pos'], x['seq']) if x else None for x in frags[0]['recs']]}
    acc.count('lib:gapped_reads', GAPPED[0])
    return acc
