"""Fragment / molecule simulator with ground truth (never calls repository code).

A library is built from true molecules (cell, contig, site, strand, umi). Each molecule yields PCR copies
(fragments) with varying far ends. Reads are substrings of a random reference (CATG planted at NLA sites),
optionally soft clipped at the read start, with mismatches (MD/NM kept correct), named with the
demultiplexer's k:v;k:v header (so the real QueryNameFlagger decodes them) and a unique id in CX.
"""
import re
import random as _random
from vlib.sim.bam import revcomp

MX_NLA = 'NLAIII384C8U3'
MX_CHIC_TRIMMED = 'scCHIC384C8U3'
MX_CHIC_UNTRIMMED = 'CS2C8U6'     # any profile not starting with scCHIC: the ligated base is still on the read


def rand_dna(r, n):
    return ''.join(r.choices('ACGT', k=n))


def scrub_catg(seq, r):
    """remove accidental CATG so that only planted sites carry the motif"""
    while 'CATG' in seq:
        seq = seq.replace('CATG', 'CTTG')
    return seq


class Genome:
    def __init__(self, r, contigs):
        """contigs: list of (name, length)"""
        self.r = r
        self.refs = list(contigs)
        self.seq = {}

    def get(self, name):
        if name not in self.seq:
            ln = dict(self.refs)[name]
            self.seq[name] = scrub_catg(rand_dna(self.r, ln), self.r)
        return self.seq[name]

    def plant(self, name, pos, motif='CATG'):
        s = self.get(name)
        self.seq[name] = s[:pos] + motif + s[pos + len(motif):]

    def tid(self, name):
        return [n for n, _ in self.refs].index(name)

    def write_fasta(self, path):
        import pysam
        with open(path, 'w') as f:
            for n, ln in self.refs:
                s = self.get(n)
                f.write(f'>{n}\n')
                for i in range(0, len(s), 60):
                    f.write(s[i:i + 60] + '\n')
        pysam.faidx(path)
        return path


def md_nm(ref_aln, read_aln):
    """MD/NM for an ungapped alignment"""
    md = ''
    run = 0
    nm = 0
    for a, b in zip(ref_aln, read_aln):
        if a == b:
            run += 1
        else:
            md += str(run) + a
            run = 0
            nm += 1
    md += str(run)
    return md, nm


def lane_of(rid):
    """flow cell and lane of a read id: the copies of one molecule (consecutive ids) come from different lanes / flow cells, so a read
    group (flowcell.lane.sample) is often carried by duplicates only"""
    return ('FLOWC' if rid % 5 else 'FLOWD'), 1 + (rid % 3 == 1)


def qname(rid, case_id, cell, umi, bc='ACGTACGT', mx=MX_NLA, lib='LIB', extra=''):
    fc, la = lane_of(rid)
    return (f'Is:NS500;RN:1;Fc:{fc};La:{la};Ti:1101;CX:{rid};CY:{case_id};Fi:N;CN:0;aa:ATCACG;aA:ATCACG;aI:1;LY:{lib};'
            f'RX:{umi};RQ:{"I" * len(umi)};bi:{cell};bc:{bc};MX:{mx};BC:{bc}{extra}')


def restored_name(rid, case_id):
    fc, la = lane_of(rid)
    return f'NS500:1:{fc}:{la}:1101:{rid}:{case_id}'


def id_from_name(name):
    """works for both the encoded and the restored read name"""
    if name.startswith('Is:'):
        for kv in name.split(';'):
            if kv.startswith('CX:'):
                return int(kv[3:])
    p = name.split(':')
    return int(p[5])


class FragSpec:
    """geometry of one sequenced fragment"""

    def __init__(self, **kw):
        self.__dict__.update(kw)


def make_fragment(gen, r, rid, case_id, method, cell, contig, site, reverse, umi, frag_len, r1_len=40, r2_len=40,
                  clip=0, mismatches=0, motif_ok=True, cycle_shift=False, chic_trimmed=True, single_end=False,
                  dup_flag=False, stale_tags=False, r2_mismatches=0, lib='LIB', mapq=60, qual=None, pretag=None, r2_indel=None, r1_indel=None):
    """Returns (records, truth) ; records are dicts for sim.bam.write_bam.

    site: NLA: coordinate of the C of CATG (both strands). CHIC: coordinate of the ligated base g.
    frag_len: distance covered on the reference from the R1 outer end to the R2 outer end.
    """
    name, clen = contig, dict(gen.refs)[contig]
    ref = gen.get(name)
    tid = gen.tid(name)
    if method == 'nla':
        if not reverse:
            a = site                    # first reference base covered by R1 (including the motif)
            if cycle_shift:
                a = site + 1            # the C is lost: read starts with ATG
            r1_start, r1_end = a, a + r1_len
            far = site + frag_len
            r2_start, r2_end = far - r2_len, far
        else:
            b = site + 4                # one past the last base of the motif
            if cycle_shift:
                b = site + 3            # the read (reverse complemented) ends with CAT
            r1_start, r1_end = b - r1_len, b
            far = site + 4 - frag_len
            r2_start, r2_end = far, far + r2_len
        expected_site = site
    else:  # chic
        g = site
        if not reverse:
            a = g + 1 if chic_trimmed else g
            r1_start, r1_end = a, a + r1_len
            far = g + frag_len
            r2_start, r2_end = far - r2_len, far
            expected_site = g - 1
        else:
            b = g if chic_trimmed else g + 1
            r1_start, r1_end = b - r1_len, b
            far = g + 1 - frag_len
            r2_start, r2_end = far, far + r2_len
            expected_site = g + 1
    if min(r1_start, r2_start) < 0 or max(r1_end, r2_end) > clen:
        return None, None
    r1_seq = list(ref[r1_start:r1_end])
    # mismatches away from the first 8 sequenced bases
    for _ in range(mismatches):
        p = r.randrange(8, r1_len - 1) if not reverse else r.randrange(1, r1_len - 8)
        r1_seq[p] = r.choice([c for c in 'ACGT' if c != r1_seq[p]])
    if method == 'nla' and not motif_ok:
        # break the motif inside the read (sequencing error in the overhang)
        if not reverse:
            p = r.randrange(0, 4)
        else:
            p = r1_len - 1 - r.randrange(0, 4)
        if cycle_shift:
            p = 1 if not reverse else r1_len - 2
        r1_seq[p] = r.choice([c for c in 'ACGT' if c != r1_seq[p]])
        if ''.join(r1_seq[:4]) == 'CATG' and not reverse:
            r1_seq[p] = 'N'
    r1_seq = ''.join(r1_seq)
    r2_seq = list(ref[r2_start:r2_end])
    for _ in range(r2_mismatches):
        p = r.randrange(1, r2_len - 1)
        r2_seq[p] = r.choice([c for c in 'ACGT' if c != r2_seq[p]])
    r2_seq = ''.join(r2_seq)
    # soft clip at the START of the read as sequenced (left end for forward, right end for reverse)
    if clip:
        if not reverse:
            r1_cigar = f'{clip}S{r1_len - clip}M'
            r1_pos = r1_start + clip
            aln_ref, aln_read = ref[r1_start + clip:r1_end], r1_seq[clip:]
        else:
            r1_cigar = f'{r1_len - clip}M{clip}S'
            r1_pos = r1_start
            aln_ref, aln_read = ref[r1_start:r1_end - clip], r1_seq[:r1_len - clip]
    else:
        r1_cigar, r1_pos = f'{r1_len}M', r1_start
        aln_ref, aln_read = ref[r1_start:r1_end], r1_seq
    md1, nm1 = md_nm(aln_ref, aln_read)
    md2, nm2 = md_nm(ref[r2_start:r2_end], r2_seq)
    if r1_indel is not None and not clip and r1_len - r1_indel[1] - 8 >= 10:
        # an insertion / deletion / skip inside read 1, at least 10 bases away from the end that was ligated: the first sequenced base and
        # with it the cut site stay where they are, the other end of the alignment moves by the net length of the gap
        kind_, k_ = r1_indel
        j_ = r.randint(10, r1_len - k_ - 8)       # bases between the ligated end and the gap
        if not reverse:
            if kind_ == 'I':
                ins = rand_dna(r, k_)
                r1_seq = r1_seq[:j_] + ins + ref[r1_start + j_:r1_start + r1_len - k_]
                r1_cigar = f'{j_}M{k_}I{r1_len - j_ - k_}M'
                md1, nm1 = md_nm(ref[r1_start:r1_start + r1_len - k_], r1_seq[:j_] + r1_seq[j_ + k_:])
                nm1 += k_
                r1_end = r1_start + r1_len - k_
            elif r1_start + r1_len + k_ <= clen:
                dele = ref[r1_start + j_:r1_start + j_ + k_]
                r1_seq = r1_seq[:j_] + ref[r1_start + j_ + k_:r1_start + r1_len + k_]
                r1_cigar = f'{j_}M{k_}{kind_}{r1_len - j_}M'
                ma, na = md_nm(ref[r1_start:r1_start + j_], r1_seq[:j_])
                md1, nm1 = (f'{ma}^{dele}{r1_len - j_}', na + k_) if kind_ == 'D' else (str(int(ma) + r1_len - j_) if ma.isdigit() else ma + '0', na)
                r1_end = r1_start + r1_len + k_
        else:
            if kind_ == 'I':
                ins = rand_dna(r, k_)
                ns = r1_end - (r1_len - k_)
                r1_seq = ref[ns:r1_end - j_] + ins + r1_seq[r1_len - j_:]
                r1_cigar = f'{r1_len - j_ - k_}M{k_}I{j_}M'
                md1, nm1 = md_nm(ref[ns:r1_end], r1_seq[:r1_len - j_ - k_] + r1_seq[r1_len - j_:])
                nm1 += k_
                r1_start = r1_pos = ns
            elif r1_end - (r1_len + k_) >= 0:
                ns = r1_end - (r1_len + k_)
                dele = ref[ns + r1_len - j_:ns + r1_len - j_ + k_]
                tail = r1_seq[r1_len - j_:]
                r1_seq = ref[ns:ns + r1_len - j_] + tail
                r1_cigar = f'{r1_len - j_}M{k_}{kind_}{j_}M'
                mb, nb = md_nm(ref[r1_end - j_:r1_end], tail)
                md1, nm1 = (f'{r1_len - j_}^{dele}{mb}', nb + k_) if kind_ == 'D' else (mb, nb)
                r1_start = r1_pos = ns
    r2_cigar = f'{r2_len}M'
    if r2_indel is not None and r2_len >= 24:
        kind_, k_ = r2_indel[:2]
        j_ = r.randint(8, r2_len - k_ - 8)
        if len(r2_indel) > 2 and kind_ == 'D':
            # the deletion sits next to the first or the last aligned base of the read: an aligned block of exactly one reference position
            j_ = 1 if r2_indel[2] == 'first' else r2_len - 1
        if kind_ == 'I':
            # k inserted bases after j aligned bases; the read still has r2_len bases, it covers r2_len-k reference bases from r2_start
            ins = rand_dna(r, k_)
            left, right = ref[r2_start:r2_start + j_], ref[r2_start + j_:r2_start + r2_len - k_]
            r2_seq = left + ins + right
            r2_cigar = f'{j_}M{k_}I{r2_len - j_ - k_}M'
            md2, nm2 = str(r2_len - k_), k_
            r2_end = r2_start + r2_len - k_
        elif r2_start + r2_len + k_ <= clen:
            # k reference bases deleted after j aligned bases
            left, dele, right = ref[r2_start:r2_start + j_], ref[r2_start + j_:r2_start + j_ + k_], ref[r2_start + j_ + k_:r2_start + r2_len + k_]
            r2_seq = left + right
            r2_cigar = f'{j_}M{k_}D{r2_len - j_}M'
            md2, nm2 = f'{j_}^{dele}{r2_len - j_}', k_
            r2_end = r2_start + r2_len + k_
    mx = MX_NLA if method == 'nla' else (MX_CHIC_TRIMMED if chic_trimmed else MX_CHIC_UNTRIMMED)
    extra = ''
    if method == 'chic':
        extra = ';lh:TA;lq:II'
    qn = qname(rid, case_id, cell, umi, mx=mx, lib=lib, extra=extra)
    tl = max(r1_end, r2_end) - min(r1_start, r2_start)
    q1 = qual[0] if qual else [30] * r1_len
    q2 = qual[1] if qual else [30] * r2_len
    flag1 = (0 if single_end else (1 | 2 | 64 | (32 if not reverse else 0))) | (16 if reverse else 0) | (1024 if dup_flag else 0)
    flag2 = 1 | 2 | 128 | (16 if not reverse else 0) | (32 if reverse else 0) | (1024 if dup_flag else 0)
    tags1 = {'MD': md1, 'NM': nm1}
    tags2 = {'MD': md2, 'NM': nm2}
    if stale_tags:
        for t in (tags1, tags2):
            t.update({'RC': r.randint(0, 5), 'af': r.randint(1, 9), 'TF': r.randint(1, 9)})
    if pretag:
        tags1.update(pretag)
        tags2.update(pretag)
    rec1 = {'name': qn, 'flag': flag1, 'tid': tid, 'pos': r1_pos, 'mapq': mapq, 'cigar': r1_cigar, 'seq': r1_seq, 'qual': q1, 'tags': tags1,
            'next_tid': -1 if single_end else tid, 'next_pos': -1 if single_end else r2_start,
            'tlen': 0 if single_end else (tl if not reverse else -tl)}
    rec2 = {'name': qn, 'flag': flag2, 'tid': tid, 'pos': r2_start, 'mapq': mapq, 'cigar': r2_cigar, 'seq': r2_seq, 'qual': q2, 'tags': tags2,
            'next_tid': tid, 'next_pos': r1_pos, 'tlen': -tl if not reverse else tl}
    recs = [rec1] if single_end else [rec1, rec2]
    valid = True
    if method == 'nla' and (not motif_ok):
        valid = False
    truth = {'id': rid, 'cell': cell, 'sample': f'{lib}_{cell}', 'contig': name, 'site': expected_site, 'reverse': reverse, 'umi': umi,
             'r1_gap': r1_indel if re.search('[IDN]', r1_cigar) else None, 'valid': valid, 'cycle_shift': cycle_shift, 'clip': clip, 'method': method, 'span': (min(r1_start, r2_start), max(r1_end, r2_end)),
             'r1': (r1_start, r1_end), 'r2': (r2_start, r2_end), 'single_end': single_end, 'trimmed': chic_trimmed, 'dup_flag': dup_flag,
             'key': (f'{lib}_{cell}', name, expected_site, reverse, umi)}
    return recs, truth


def add_hard_clips(r, fr):
    """hard clips (bases the aligner removed from the record) outside everything else, on either end of either mate: no base, no
    coordinate of the record changes"""
    any_ = False
    for x in fr:
        if x.get('cigar'):
            x['cigar'] = r.choice(['', f'{r.randint(1, 9)}H']) + x['cigar'] + r.choice(['', f'{r.randint(1, 9)}H'])
            any_ = any_ or 'H' in x['cigar']
    return any_


def mutate_umi(r, umi, d):
    u = list(umi)
    for p in r.sample(range(len(u)), min(d, len(u))):
        u[p] = r.choice([c for c in 'ACGT' if c != u[p]])
    return ''.join(u)


def unmapped_pair(r, rid, case_id, cell, umi, lib='LIB', mx=MX_NLA, seq_len=30, place=None):
    """place=(tid, pos): both mates are flagged unmapped but keep a contig and coordinate (aligners leave such pairs, e.g. reads hanging over
    the end of a short contig); idxstats then lists them in the unmapped column of that contig"""
    qn = qname(rid, case_id, cell, umi, mx=mx, lib=lib)
    recs = []
    tid, pos = place if place is not None else (-1, -1)
    for m in (0, 1):
        recs.append({'name': qn, 'flag': 1 | 4 | 8 | (64 if m == 0 else 128), 'tid': tid, 'pos': pos, 'mapq': 0, 'cigar': None,
                     'seq': rand_dna(r, seq_len), 'qual': [20] * seq_len, 'tags': {}, 'next_tid': tid, 'next_pos': pos, 'tlen': 0})
    return recs


def simulate_library(r, method='nla', contigs=None, n_cells=3, n_sites=10, umi_len=3, umis_per_site=(1, 3), copies=(1, 4),
                     case_id=1, p_reverse=0.5, p_clip=0.2, max_clip=6, p_invalid=0.0, p_umi_neighbour=0.3, p_mismatch=0.2,
                     frag_range=(60, 300), read_len=40, chic_trimmed=True, n_unmapped=0, p_dup_flag=0.0, p_stale=0.0,
                     site_positions=None, lib='LIB', start_id=1, p_single_end=0.0, umi_with_n=0.0, min_gap=None, frag_len_fn=None, p_hard_clip=0.0, p_cycle_shift=0.0):
    """Returns (genome, records, truths{id:truth}).  Sites are spaced so that fragments of different sites may overlap."""
    contigs = contigs or [('chr1', 20000)]
    gen = Genome(r, contigs)
    recs = []
    truths = {}
    rid = start_id
    cells = list(range(1, n_cells + 1))
    margin = frag_range[1] + read_len + 10
    sites = []
    if site_positions is not None:
        sites = list(site_positions)
    else:
        for _ in range(n_sites):
            name, ln = r.choice(contigs)
            if ln <= 2 * margin + 10:
                continue
            sites.append((name, r.randrange(margin, ln - margin)))
        # sites on the very first / last bases of a contig (coordinate 0 is a coordinate like any other): only the strand that
        # points into the contig yields a fragment there
        er = _random.Random(r.random())
        for name, ln in contigs:
            if ln <= 2 * margin + 10 or er.random() < 0.5:
                continue
            if method == 'nla':
                sites += er.sample([(name, 0), (name, ln - 4)], er.randint(1, 2))
            else:
                sites += er.sample([(name, 1), (name, ln - 2)], er.randint(1, 2))
                if er.random() < 0.5:
                    # neighbouring cuts on the very first bases (ligated base 1, 0, -1: sites 0, -1, -2) that share cell, strand and UMIs: three
                    # molecules, told apart by their site only
                    sites += [(name, 1), (name, 0), (name, -1)]
    # plant motifs, dropping sites that would overlap an already planted motif
    planted = []
    for name, pos in sites:
        if (name, pos) in planted:
            continue
        if (method == 'nla' or pos not in (-1, 0, 1)) and any(n == name and abs(p - pos) < 8 for n, p in planted):
            continue
        planted.append((name, pos))
        if method == 'nla':
            gen.plant(name, pos)
    edge_umis = {}
    for name, pos in planted:
        at_start = method != 'nla' and pos in (-1, 0, 1)
        for cell in (r.sample(cells, r.randint(1, len(cells))) if not at_start else cells[:1]):
            for strand in ([False, True] if r.random() < 0.3 else [r.random() < p_reverse]) if not at_start else [False]:
                base_umis = []
                if at_start:
                    base_umis = edge_umis.setdefault((name, cell), [rand_dna(r, umi_len)])
                    for u in base_umis:
                        for _ in range(r.randint(1, 2)):
                            fr, tr = make_fragment(gen, r, rid, case_id, method, cell, name, pos, False, u, r.randint(*frag_range), r1_len=read_len, r2_len=read_len,
                                                   chic_trimmed=chic_trimmed, lib=lib)
                            if fr is None:
                                continue
                            recs.extend(fr)
                            truths[rid] = tr
                            rid += 1
                    continue
                for _ in range(r.randint(*umis_per_site)):
                    if base_umis and r.random() < p_umi_neighbour:
                        u = mutate_umi(r, r.choice(base_umis), r.choice([1, 1, 2]))
                    else:
                        u = rand_dna(r, umi_len)
                    if r.random() < umi_with_n:
                        p = r.randrange(umi_len)
                        u = u[:p] + 'N' + u[p + 1:]
                    base_umis.append(u)
                for u in base_umis:
                    for _ in range(r.randint(*copies)):
                        invalid = r.random() < p_invalid
                        # a copy that lost its first sequenced base (read starts with ATG / ends with CAT); simulated without soft clip
                        cs_ = bool(p_cycle_shift) and method == 'nla' and not invalid and r.random() < p_cycle_shift
                        fr, tr = make_fragment(
                            gen, r, rid, case_id, method, cell, name, pos, strand, u, frag_len_fn(r) if frag_len_fn else r.randint(*frag_range), r1_len=read_len, r2_len=read_len,
                            clip=(r.randint(1, max_clip) if r.random() < p_clip else 0) if not cs_ else 0,
                            cycle_shift=cs_,
                            mismatches=1 if r.random() < p_mismatch else 0, motif_ok=not invalid, chic_trimmed=chic_trimmed,
                            dup_flag=r.random() < p_dup_flag, stale_tags=r.random() < p_stale, lib=lib,
                            single_end=r.random() < p_single_end)
                        if fr is None:
                            continue
                        if p_hard_clip and r.random() < p_hard_clip:
                            tr['hard_clipped'] = add_hard_clips(r, fr)
                        recs.extend(fr)
                        truths[rid] = tr
                        rid += 1
    for _ in range(n_unmapped):
        cell = r.choice(cells)
        u = rand_dna(r, umi_len)
        recs.extend(unmapped_pair(r, rid, case_id, cell, u, lib=lib, mx=MX_NLA if method == 'nla' else MX_CHIC_TRIMMED))
        truths[rid] = {'id': rid, 'cell': cell, 'sample': f'{lib}_{cell}', 'contig': None, 'site': None, 'reverse': None, 'umi': u, 'valid': False,
                       'unmapped': True, 'method': method, 'key': None}
        rid += 1
    return gen, recs, truths
