"""FASTQ library generator + strict readers for the demultiplexing checks (C01, C02, C04).

Never calls repository code to build inputs. Every generated pair carries a unique integer id in the
Illumina cluster X coordinate (CX) and the case id in CY (3-DEC headers: tile / lane), so every
output record identifies the input record it came from.
"""
import os
import gzip
import glob
import shutil
import string

LETTERS = string.ascii_letters  # the 52-letter header-safe quality alphabet


def hsq(qual_string):
    """independent header-safe quality code: letter[min(Q,51)]"""
    return ''.join(LETTERS[min(max(ord(c) - 33, 0), 51)] for c in qual_string)


def hsq_decode(s):
    return ''.join(chr(LETTERS.index(c) + 33) for c in s)


REPO_DEMUX = os.path.join(os.environ.get('SCMO_REPO', '/repo'), 'singlecellmultiomics', 'modularDemultiplexer')
TENX = '10x_3M-february-2018'
INDEX_ALIAS = 'illumina_merged_ThruPlex48S_RP'


def build_barcode_dir(dst, r):
    """copy of the shipped barcode directory with a generated 10x whitelist (the shipped one is emptied)"""
    os.makedirs(dst, exist_ok=True)
    for f in glob.glob(os.path.join(REPO_DEMUX, 'barcodes', '*')):
        if TENX in os.path.basename(f):
            continue
        shutil.copy(f, os.path.join(dst, os.path.basename(f)))
    # every second whitelist numbers its cells from 0 instead of 1 (cell index 0 is an index like any other)
    for n, f in enumerate(sorted(glob.glob(os.path.join(dst, '*')))):
        if n % 2 or f.endswith('.gz'):
            continue
        lines = open(f).read().split('\n')
        out = []
        ok = True
        for line in lines:
            parts = line.split()
            if len(parts) != 2:
                out.append(line)
                continue
            i = 0 if parts[0].isdigit() else 1
            if not parts[i].isdigit():
                ok = False
                break
            sep = '\t' if '\t' in line else ' '
            parts[i] = str(int(parts[i]) - 1)
            out.append(sep.join(parts))
        if ok:
            with open(f, 'w') as h:
                h.write('\n'.join(out))
    seen = set()
    while len(seen) < 60:
        seen.add(''.join(r.choice('ACGT') for _ in range(16)))
    with gzip.open(os.path.join(dst, TENX + '.bc.gz'), 'wt') as f:
        for bc in sorted(seen):
            f.write(bc + '\n')
    return dst


def parse_whitelist(path):
    """independent parse: returns list of (barcode, index)"""
    op = gzip.open if path.endswith('.gz') else open
    rows = []
    with op(path, 'rt') as f:
        for i, line in enumerate(f):
            parts = line.strip().split()
            if not parts:
                continue
            rows.append((i, parts))
    out = []
    for i, parts in rows:
        if len(parts) == 1:
            out.append((parts[0], i + 1))
        else:
            first_is_barcode = all(c in 'ACGTNX' for c in parts[0])
            bc, idx = (parts[0], parts[1]) if first_is_barcode else (parts[1], parts[0])
            try:
                idx = int(idx)
            except ValueError:
                pass
            out.append((bc, idx))
    return out


def load_whitelists(bdir):
    wl = {}
    for f in glob.glob(os.path.join(bdir, '*')):
        alias = os.path.splitext(os.path.basename(f))[0].replace('.gz', '').replace('.bc', '')
        wl[alias] = parse_whitelist(f)
    return wl


def nearest(whitelist, q, k):
    """independent nearest-neighbour correction -> (index, barcode, distance) or None"""
    best = None
    bestd = None
    tie = False
    for bc, idx in whitelist:
        if len(bc) != len(q):
            continue
        d = sum(1 for a, b in zip(bc, q) if a != b)
        if bestd is None or d < bestd:
            best, bestd, tie = (idx, bc, d), d, False
        elif d == bestd and bc != best[1]:
            tie = True
    if bestd is None or bestd > k or tie:
        return None
    return best


# ------------------------------------------------------------------------------------------ records

def rand_seq(r, n, p_n=0.0):
    return ''.join('N' if r.random() < p_n else r.choice('ACGT') for _ in range(n))


def rand_qual(r, n, qmax=93, mode=None):
    mode = mode or r.choice(['any', 'high', 'low', 'flat'])
    if mode == 'flat':
        c = chr(33 + r.randint(0, qmax))
        return c * n
    if mode == 'high':
        return ''.join(chr(33 + r.randint(max(0, qmax - 12), qmax)) for _ in range(n))
    if mode == 'low':
        return ''.join(chr(33 + r.randint(0, min(qmax, 12))) for _ in range(n))
    return ''.join(chr(33 + r.randint(0, qmax)) for _ in range(n))


def put(seq, start, s):
    seq = list(seq.ljust(start + len(s), 'A'))
    seq[start:start + len(s)] = list(s)
    return ''.join(seq)


def header(kind, rid, case_id, mate, index_seq):
    """kind: illumina | short7 | scmo | 3dec"""
    if kind == 'illumina':
        return f'@NS500413:32:H14TKBGXX:2:11101:{rid}:{case_id} {mate + 1}:N:0:{index_seq}'
    if kind == 'short7':
        return f'@NS500413:32:H14TKBGXX:2:11101:{rid}:{case_id}'
    if kind == 'scmo':
        return f'@Is:NS500413;RN:32;Fc:H14TKBGXX;La:2;Ti:11101;CX:{rid};CY:{case_id};Fi:N;CN:0;aa:ATCACG;aA:ATCACG;aI:1'
    if kind == 'scmo_umi':
        # a read that went through the demultiplexer before: its name already carries a UMI and the UMI qualities in the header-safe code
        return (f'@Is:NS500413;RN:32;Fc:H14TKBGXX;La:2;Ti:11101;CX:{rid};CY:{case_id};Fi:N;CN:0;aa:ATCACG;aA:ATCACG;aI:1;'
                f'RX:{requeued_umi(rid)[0]};RQ:{hsq(requeued_umi(rid)[1])}')
    if kind == '3dec':
        return f'@Cluster_s_{case_id}_{rid}_{mate + 1}'
    raise ValueError(kind)


def requeued_umi(rid):
    """(bases, phred+33 qualities) of the UMI an earlier demultiplexing run put into the name of read `rid`"""
    bases = ''.join('ACGT'[(rid * 5 + k * 3) % 4] for k in range(3))
    quals = ''.join(chr(33 + (rid * 7 + k * 13) % 42) for k in range(3))
    return bases, quals


def make_pair(r, lay, whitelist, kind, rid, case_id, hdr_kind='illumina', index_seq='ATCACG', qmax=93, p_n=0.02,
              insert_len=None, single_end=False, needs=None):
    """kind: good | mm1 | mm2 | unknown | short | empty | allN
    Returns dict(id, kind, reads=[(header, seq, plus, qual) ...], planted=barcode or None)"""
    from vlib.spec.layouts import prefix_len
    mates = [0] if single_end else [0, 1]
    seqs = {}
    planted = None
    for m in mates:
        pre = prefix_len(lay, m)
        il = insert_len[m] if insert_len is not None else r.choice([0, 1, 2, 5, 20, 50, 100, 150, r.randint(0, 150)])
        seqs[m] = rand_seq(r, pre + il, p_n if kind != 'good' else p_n / 4)
    bc_len = sum(e - s for _, s, e in lay['bc'])
    if lay['bc'] and whitelist:
        cands = [b for b, _ in whitelist if len(b) == bc_len]
        if kind in ('good', 'mm1', 'mm2', 'short', 'empty') and cands:
            bc = r.choice(cands)
            planted = bc
            if kind in ('mm1', 'mm2'):
                b = list(bc)
                for p in r.sample(range(len(b)), 1 if kind == 'mm1' else 2):
                    b[p] = r.choice([c for c in 'ACGTN' if c != b[p]])
                bc = ''.join(b)
        else:
            bc = rand_seq(r, bc_len, 0.05)
        off = 0
        for (m, s, e) in lay['bc']:
            if m in seqs:
                seqs[m] = put(seqs[m], s, bc[off:off + e - s])
            off += e - s
        if kind == 'good':
            # keep the UMI free of nothing special; ensure barcode segment has no N from p_n
            pass
    if needs and kind == 'good' and 0 in seqs:
        # plant the literal somewhere inside the insert of mate 0
        start = lay['insert'][0] + r.randint(0, 30)
        seqs[0] = put(seqs[0], start, needs)
        if r.random() < 0.5:
            seqs[0] += rand_seq(r, r.randint(0, 40))
    if kind == 'short':
        for m in mates:
            cut = r.randint(0, max(0, prefix_len(lay, m) - 1)) if r.random() < 0.7 else len(seqs[m])
            seqs[m] = seqs[m][:cut]
    if kind == 'empty':
        for m in (mates if r.random() < 0.5 else [r.choice(mates)]):
            seqs[m] = ''
    if kind == 'allN':
        for m in mates:
            seqs[m] = 'N' * len(seqs[m])
    reads = []
    for m in mates:
        q = rand_qual(r, len(seqs[m]), qmax)
        reads.append((header(hdr_kind, rid, case_id, m, index_seq), seqs[m], '+', q))
    return {'id': rid, 'kind': kind, 'reads': reads, 'planted': planted, 'hdr': hdr_kind, 'index': index_seq}


def write_fastq(paths, pairs, gz=True, final_newline=True, form='plain'):
    """final_newline=False: the last line of every file is not newline-terminated (files cut by `head -c`, written by other tools)
    form: 'plain' | 'crlf' (Windows line ends) | 'plusname' (the separator line repeats the read name, as older Illumina / SRA files do)"""
    nl = '\r\n' if form == 'crlf' else '\n'
    ops = [(gzip.open(p, 'wt', newline='') if (gz and p.endswith('.gz')) or (gz and not p.endswith('.fastq')) else open(p, 'w', newline='')) for p in paths]
    texts = [[] for _ in paths]
    for pr in pairs:
        for t, rd in zip(texts, pr['reads']):
            if form == 'plusname':
                rd = (rd[0], rd[1], '+' + rd[0][1:], rd[3])
            t.append(nl.join(rd) + nl)
    for f, t in zip(ops, texts):
        data = ''.join(t)
        if not final_newline and data.endswith(nl):
            data = data[:-len(nl)]
        f.write(data)
        f.close()


def read_fastq_strict(path):
    """strict 4-line reader. Returns (records, error). record = (header, seq, plus, qual)"""
    op = gzip.open if path.endswith('.gz') else open
    with op(path, 'rt', newline='\n') as f:
        data = f.read()
    if data == '':
        return [], None
    if not data.endswith('\n'):
        return None, 'file does not end with a newline'
    lines = data[:-1].split('\n')
    if len(lines) % 4 != 0:
        return None, f'{len(lines)} lines is not a multiple of 4'
    recs = []
    for i in range(0, len(lines), 4):
        h, s, p, q = lines[i:i + 4]
        if not h.startswith('@'):
            return None, f'record {i // 4}: header does not start with @: {h[:60]!r}'
        if not p.startswith('+'):
            return None, f'record {i // 4}: third line does not start with +: {p[:60]!r}'
        if len(s) != len(q):
            return None, f'record {i // 4}: sequence/quality length differ {len(s)} vs {len(q)}'
        recs.append((h, s, p, q))
    return recs, None


def parse_out_header(h):
    """'@k:v;k:v' -> dict (value = everything after the first ':')"""
    tags = {}
    for kv in h[1:].split(';'):
        if ':' in kv:
            k, v = kv.split(':', 1)
            if k not in tags:
                tags[k] = v
    return tags


def record_id(h):
    """unique (id, case) of an output or reject record from its header, or None"""
    if h.startswith('@Is:') or h.startswith('@Is;'):
        t = parse_out_header(h)
        try:
            if t.get('CX') not in (None, '-1'):
                return int(t['CX']), int(t['CY'])
            return int(t['Ti']), int(t['La'])
        except (KeyError, ValueError):
            return None
    raw = h.split(';')[0]
    if raw.startswith('@Cluster_s_'):
        p = raw.split('_')
        return int(p[3]), int(p[2])
    f = raw.split(' ')[0].split(':')
    try:
        return int(f[5]), int(f[6])
    except (IndexError, ValueError):
        return None
