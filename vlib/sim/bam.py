"""BAM writing helpers for the simulators (pysam only; never calls repository code)."""
import os
import pysam

COMP = {'A': 'T', 'C': 'G', 'G': 'C', 'T': 'A', 'N': 'N'}


def revcomp(s):
    return ''.join(COMP[c] for c in reversed(s))


def make_header(refs, extra=None):
    h = {'HD': {'VN': '1.6', 'SO': 'coordinate'},
         'SQ': [{'SN': n, 'LN': l} for n, l in refs]}
    if extra:
        h.update(extra)
    return pysam.AlignmentHeader.from_dict(h)


def make_seg(header, rec):
    """rec: dict(name, flag, tid, pos, mapq, cigar (string or None), seq, qual (list of int or str), tags (dict or list),
    next_tid, next_pos, tlen)"""
    a = pysam.AlignedSegment(header)
    a.query_name = rec['name']
    a.flag = rec.get('flag', 0)
    a.reference_id = rec.get('tid', -1)
    a.reference_start = rec.get('pos', -1)
    a.mapping_quality = rec.get('mapq', 60)
    if rec.get('cigar'):
        a.cigarstring = rec['cigar']
    a.query_sequence = rec.get('seq', '')
    q = rec.get('qual')
    if q is not None:
        if isinstance(q, str):
            a.query_qualities = pysam.qualitystring_to_array(q)
        else:
            import array
            a.query_qualities = array.array('B', q)
    a.next_reference_id = rec.get('next_tid', -1)
    a.next_reference_start = rec.get('next_pos', -1)
    a.template_length = rec.get('tlen', 0)
    tags = rec.get('tags') or {}
    items = tags.items() if isinstance(tags, dict) else tags
    for k, v in items:
        if isinstance(v, tuple):
            a.set_tag(k, v[0], value_type=v[1])
        else:
            a.set_tag(k, v)
    return a


def sort_key(rec):
    tid = rec.get('tid', -1)
    if tid < 0:
        return (1 << 30, 0)
    return (tid, rec.get('pos', -1))


def write_bam(path, refs, recs, sort=True, index=True, header_extra=None, tie_rng=None):
    """tie_rng: the order among records of equal coordinate is not defined by a coordinate sort - with a random generator the ties are
    broken at random (mates at one position may come in either order, copies of a molecule in any order)"""
    header = make_header(refs, header_extra)
    if sort:
        if tie_rng is not None:
            recs = list(recs)
            tie_rng.shuffle(recs)
        recs = sorted(recs, key=sort_key)  # stable: keeps generation (or the shuffled) order among ties
    with pysam.AlignmentFile(path, 'wb', header=header) as f:
        for r in recs:
            f.write(make_seg(header, r))
    if index:
        pysam.index(path)
    return path


def read_all(path, until_eof=True):
    with pysam.AlignmentFile(path, check_sq=False) as f:
        return list(f.fetch(until_eof=True)), f.header.to_dict()
