"""Subprocess driver for C20: runs the real tagger with a step tracer / failpoint engine attached.

usage: c20_driver.py <spec.json>
spec: {bam, out, method, multiprocess, threads, temp, trace_file, fault: null | {proc, step, occ, when, kind}}

Steps are the python-level step boundaries of the pipeline (entry = 'before', return = 'after'):
  main process : write_status, molecule.write_pysam (k-th molecule written), add_readgroups_to_header,
                 replace_bam_header, pysam.sort, pysam.index, pysam.merge, os.rename, os.remove, shutil.move,
                 shutil.rmtree, merge_bams
  worker       : run_tagging_tasks (whole job) and all of the above inside the job; proc = 'job:<contigs>'
Every step appends one JSON line to trace_file (O_APPEND, fork safe).
"""
import os
import sys
import json
import signal


def main():
    spec = json.load(open(sys.argv[1]))
    fault = spec.get('fault')
    trace_file = spec['trace_file']
    state = {'proc': 'main', 'occ': {}}

    def log(ev):
        fd = os.open(trace_file, os.O_WRONLY | os.O_APPEND | os.O_CREAT, 0o644)
        try:
            os.write(fd, (json.dumps(ev) + '\n').encode())
        finally:
            os.close(fd)

    def fire(kind, where):
        log({'proc': state['proc'], 'fired': kind, 'at': where})
        if kind == 'raise':
            # the class of the failure is not under the tool's control either: a programming error, an I/O error, memory exhaustion
            import errno, zlib
            cls = (fault or {}).get('exc') or ['RuntimeError', 'OSError', 'ValueError', 'MemoryError'][zlib.crc32(where.encode()) % 4]
            log({'proc': state['proc'], 'exception_class': cls})
            if cls == 'OSError':
                raise OSError(errno.EIO, f'Input/output error (injected fault at {where})')
            raise {'RuntimeError': RuntimeError, 'ValueError': ValueError, 'MemoryError': MemoryError}[cls](f'injected fault at {where}')
        if kind == 'exit':
            os._exit(1)
        if kind == 'kill':
            os.killpg(os.getpgid(0), signal.SIGKILL)
            os._exit(137)

    def step(name, when):
        key = (state['proc'], name)
        if when == 'before':
            state['occ'][key] = state['occ'].get(key, -1) + 1
        occ = state['occ'].get(key, 0)
        log({'proc': state['proc'], 'step': name, 'occ': occ, 'when': when})
        if fault and fault['proc'] == state['proc'] and fault['step'] == name and fault['when'] == when:
            if fault['kind'] == 'raise_persistent':
                # the step is broken for good (disk full, unsupported input): every attempt from this occurrence on fails, retries included
                if occ >= fault['occ']:
                    fire('raise', f"{state['proc']}/{name}#{occ}/{when} (persistent)")
            elif fault['occ'] == occ:
                fire(fault['kind'], f"{state['proc']}/{name}#{occ}/{when}")

    def wrap(owner, attr, name=None):
        orig = getattr(owner, attr)
        nm = name or attr

        def wrapped(*a, **k):
            step(nm, 'before')
            res = orig(*a, **k)
            step(nm, 'after')
            return res
        wrapped.__name__ = getattr(orig, '__name__', attr)
        setattr(owner, attr, wrapped)
        return orig

    import shutil
    import pysam
    from singlecellmultiomics.universalBamTagger import bamtagmultiome as btm
    from singlecellmultiomics.universalBamTagger import tagging
    from singlecellmultiomics.bamProcessing import bamFunctions
    from singlecellmultiomics.molecule import molecule as mm
    import vlib.c20_driver as me   # the job wrapper must be importable by reference in the workers

    btm.sleep = lambda s: None
    wrap(btm, 'write_status')
    wrap(mm.Molecule, 'write_pysam', 'molecule.write_pysam')
    wrap(bamFunctions, 'add_readgroups_to_header')
    wrap(bamFunctions, 'replace_bam_header')
    wrap(pysam, 'sort', 'pysam.sort')
    wrap(pysam, 'index', 'pysam.index')
    wrap(pysam, 'merge', 'pysam.merge')
    wrap(os, 'rename', 'os.rename')
    wrap(os, 'remove', 'os.remove')
    wrap(bamFunctions, 'move', 'shutil.move')
    wrap(shutil, 'rmtree', 'shutil.rmtree')
    orig_merge = bamFunctions.merge_bams
    wrap(bamFunctions, 'merge_bams')
    btm.merge_bams = bamFunctions.merge_bams
    me.STATE = state
    me.STEP = step
    me.ORIG_JOB = tagging.run_tagging_tasks
    btm.run_tagging_tasks = me.job_wrapper

    cmd = [spec['bam'], '-o', spec['out'], '-method', spec['method'], '-temp_folder', spec['temp']]
    if spec.get('multiprocess'):
        cmd += ['--multiprocess', '-tagthreads', str(spec.get('threads', 2))]
    cmd += list(spec.get('extra_args', []))
    log({'proc': 'main', 'event': 'start'})
    try:
        btm.run_multiome_tagging_cmd(cmd)
        log({'proc': 'main', 'event': 'returned'})
    except BaseException as ex:
        log({'proc': 'main', 'event': 'raised', 'exc': repr(ex)[:300]})
        sys.exit(3)


STATE = None
STEP = None
ORIG_JOB = None


def job_wrapper(args):
    (alignments_path, temp_dir, timeout_time), arglist = args
    STATE['proc'] = 'job:' + ','.join(str(t.get('contig')) for t in arglist)
    STEP('run_tagging_tasks', 'before')
    res = ORIG_JOB(args)
    STEP('run_tagging_tasks', 'after')
    return res


if __name__ == '__main__':
    main()
