"""Protocol layout table: one entry per registered demultiplexing strategy (shortName).

Written by hand from the protocol descriptions (longName / description texts, the module
comments and the wet-lab layout they describe) - NOT derived from constructor arguments at run time.
This table is the trace specification C02 checks the demultiplexer against, and the generator
uses it to plant whitelisted barcodes where the protocol puts them.

Segment = (mate, start, end) half-open, 0-based positions in the RAW input read of that mate.

 alias      : barcode whitelist alias
 bc         : list of segments whose concatenation is the raw cell barcode
 umi        : list of segments whose concatenation is the UMI (tag RX, qualities RQ)
 rs         : segment of the random primer (tag rS) or None
 lh         : segment of the ligation bases (tags lh / lq) or None
 extra      : {tag: segment} further sequence tags (RBSN: ES enzyme id, IS ISPCR)
 insert     : [start on mate 0, start on mate 1] first emitted base per mate
 ends       : 'pe' needs a pair, 'se' needs a single read, 'any'
 mx         : MX tag written on accepted records
 fixed      : True when the emitted stretch is exactly raw[insert:] for both mates;
              False for content dependent trimming (emitted = contiguous stretch starting at >= insert)
 needs      : optional literal that must be present for acceptance (planted by the generator)
 alternatives: for composite strategies the list of sub layouts, selected by the 'dt' tag
"""


def L(alias, bc, umi, insert, rs=None, lh=None, extra=None, ends='any', mx=None, fixed=True, needs=None, dt=None):
    return dict(alias=alias, bc=bc, umi=umi, rs=rs, lh=lh, extra=extra or {}, insert=insert, ends=ends, mx=mx,
                fixed=fixed, needs=needs, dt=dt)


_CS2_TX = L('celseq2', [(0, 6, 14)], [(0, 0, 6)], [14, 6], rs=(1, 0, 6), mx='CS2C8U6', fixed=False, dt='RNA', ends='pe')
_DAMID2 = L('DamID2', [(0, 3, 13)], [(0, 0, 3)], [12, 0], lh=(0, 11, 13), mx='DamID2', dt='DamID')
_SCA_DAM8 = L('DamID2_scattered_8bp', [(0, 3, 7), (0, 10, 14)], [(0, 0, 3), (0, 7, 10)], [14, 0], lh=(0, 14, 16), mx='DamID2_3u4b3u6b', dt='DamID', ends='pe')
_SCA_TX8 = L('CS2_scattered_8bp', [(0, 3, 7), (0, 10, 14)], [(0, 0, 3), (0, 7, 10)], [14, 0], lh=(0, 14, 16), mx='DamID2_3u4b3u6b', fixed=False, dt='RNA', ends='pe')

LAYOUTS = {
    # bulk: nothing is removed, nothing is tagged
    'ILLU': L(None, [], [], [0, 0], mx=None),
    # "R1 starts with a 8bp cell barcode followed by a 4bp UMI"; R2 begins with the 6bp random primer
    'CS1C8U4': L('celseq1', [(0, 0, 8)], [(0, 8, 12)], [12, 6], rs=(1, 0, 6)),
    # "R1 starts with a 6bp UMI followed by a 8bp cell barcode"
    'CS2C8U6': L('celseq2', [(0, 6, 14)], [(0, 0, 6)], [14, 6], rs=(1, 0, 6)),
    # "... R2 has no random primer"
    'CS2C8U6NH': L('celseq2', [(0, 6, 14)], [(0, 0, 6)], [14, 0]),
    # "R2 starts with a longer 8bp UMI followed by a 8bp cell barcode. R1 ends with a 6bp primer"
    'CS2C8U8S': L('celseq2', [(1, 8, 16)], [(1, 0, 8)], [6, 16], rs=(0, 0, 6)),
    # "CEL-Seq2 without NLAIII digestable barcodes", 8bp UMI, 8bp CB, 6bp random primer on R2
    'CS2C8U8NNLA': L('celseq2_noNla', [(0, 8, 16)], [(0, 0, 8)], [16, 6], rs=(1, 0, 6)),
    # "R2 starts with a 6bp UMI followed by a 8bp cell barcode. R1 ends with a 6bp random primer"
    'CS2C8U6S': L('celseq2', [(1, 6, 14)], [(1, 0, 6)], [6, 14], rs=(0, 0, 6)),
    # "3bp umi followed by 8bp barcode. R2 starts with a 6bp random primer"
    'NLAIII384C8U3': L('maya_384NLA', [(0, 3, 11)], [(0, 0, 3)], [11, 6], rs=(1, 0, 6)),
    'NLAIII96C8U3': L('lennart96NLA', [(0, 3, 11)], [(0, 0, 3)], [11, 6], rs=(1, 0, 6)),
    # "UMI: 8 bp, CB: 8bp, Enz. ID: 3bp, ISPCR: 15 bp" all on R1
    'RBSN': L('nla_bisulfite', [(0, 8, 16)], [(0, 0, 8)], [34, 0], extra={'ES': (0, 16, 19), 'IS': (0, 19, 34)}, ends='pe'),
    # single end variants
    'NLAIII384C8U3SE': L('maya_384NLA', [(0, 3, 11)], [(0, 0, 3)], [11, 0], ends='se'),
    'NLAIII96C8U3SE': L('lennart96NLA', [(0, 3, 11)], [(0, 0, 3)], [11, 0], ends='se'),
    # "3bp umi followed by 8bp barcode and a single A (read as T)": the ligated base is not emitted, the
    # first two bases after the barcode are kept as ligation tag; "R2 ends with a 6bp random primer"
    'scCHIC384C8U3': L('maya_384NLA', [(0, 3, 11)], [(0, 0, 3)], [12, 6], rs=(1, 0, 6), lh=(0, 11, 13)),
    # paired-end protocol without random primer (the single-end variant is scCHIC384C8U3se): the ligation tag goes on both mates
    'scCHIC384C8U3l': L('maya_384NLA', [(0, 3, 11)], [(0, 0, 3)], [12, 0], lh=(0, 11, 13), ends='pe'),
    'scCHIC384C8U3se': L('maya_384NLA', [(0, 3, 11)], [(0, 0, 3)], [12, 0], lh=(0, 11, 13), ends='se'),
    # mixed transcriptome + CHiC, R2 trimmed depending on content
    'TCHIC': L('maya_384NLA', [(0, 3, 11)], [(0, 0, 3)], [12, 0], lh=(0, 11, 13), ends='pe', fixed=False),
    # CHiC + template switching oligo: R1 is clipped at the oligo
    'CHICTV': L('maya_384NLA', [(0, 3, 11)], [(0, 0, 3)], [12, 0], lh=(0, 11, 13), ends='pe', fixed=False, mx='CTV', needs='AGACTCTTT'),
    'MSPJIC8U3': L('maya_mspj1', [(0, 3, 11)], [(0, 0, 3)], [11, 0]),
    # scar amplicons, barcode only
    'SCARC8R2': L('scartrace', [(1, 0, 8)], [], [0, 8], ends='pe'),
    'SCARC8R1': L('scartrace', [(0, 0, 8)], [], [8, 0]),
    'SCARC8R2R4': L('scartrace', [(1, 0, 8)], [], [4, 8], rs=(0, 0, 4), ends='pe'),
    # "R1 starts with a 16bp cell barcode followed by a 12bp UMI"
    'CHROMC16U12': L('10x_3M-february-2018', [(0, 0, 16)], [(0, 16, 28)], [28, 0]),
    # "3bp umi followed by 10bp barcode, the last two bases of the barcode are CA"; the last barcode base is mapped
    'DamID2': dict(_DAMID2),
    # 8bp barcode without overhang; the last barcode base is mapped as well, ligation tag = 2 bases after the barcode
    'DamID2_8bp_noCA': L('DamID2_8bp', [(0, 3, 11)], [(0, 0, 3)], [10, 0], lh=(0, 11, 13)),
    # scattered: 3bp UMI, 4bp CB, 3bp UMI, 4bp CB
    'DamID2_3u4b3u6b': dict(_SCA_DAM8, ends='any', dt=None),
}

COMPOSITES = {
    # DamID2 or CEL-Seq2 transcriptome (poly-T pruned) ; both matching -> DamID record flagged Ambiguous
    'DamAndT': {'ends': 'pe', 'alternatives': [dict(_DAMID2, ends='pe'), _CS2_TX]},
    'DamID2andT_3u4b3u4b': {'ends': 'pe', 'alternatives': [_SCA_DAM8, _SCA_TX8]},
    # the 10bp scattered DamID whitelist is not shipped: only the transcriptome arm can match
    'DamID2andT_3u4b3u6b': {'ends': 'pe', 'alternatives': [_SCA_TX8]},
}

for _name, _lay in LAYOUTS.items():
    if _lay['mx'] is None and _name != 'ILLU':
        _lay['mx'] = _name
    # a layout that takes anything from mate 2 needs a pair
    _segs = _lay['bc'] + _lay['umi'] + [s for s in (_lay['rs'], _lay['lh']) if s] + list(_lay['extra'].values())
    if _lay['ends'] == 'any' and any(s[0] == 1 for s in _segs):
        _lay['ends'] = 'pe'


def layout_for_generation(short_name, r=None):
    """layout used to plant a barcode (composites: one of the arms)"""
    if short_name in LAYOUTS:
        return LAYOUTS[short_name]
    alts = COMPOSITES[short_name]['alternatives']
    return alts[0] if r is None else r.choice(alts)


def ends_of(short_name):
    return LAYOUTS[short_name]['ends'] if short_name in LAYOUTS else COMPOSITES[short_name]['ends']


def prefix_len(lay, mate):
    m = lay['insert'][mate]
    for seg in lay['bc'] + lay['umi'] + [s for s in (lay['rs'], lay['lh']) if s] + list(lay['extra'].values()):
        if seg[0] == mate:
            m = max(m, seg[2])
    return m


ALL_NAMES = list(LAYOUTS) + list(COMPOSITES)
