#!/bin/bash
# offline self-test: the framework is pure python on /venv; nothing to build.
here="$(cd "$(dirname "$0")" && pwd)"
cd "$here"
export PYTHONPATH="$here" PYTHONDONTWRITEBYTECODE=1
/venv/bin/python - <<'PY'
import importlib, glob, os, sys
import singlecellmultiomics, pysam
for f in sorted(glob.glob('vlib/props/c*.py')):
    importlib.import_module('vlib.props.' + os.path.basename(f)[:-3])
print('setup ok: singlecellmultiomics from', os.path.dirname(singlecellmultiomics.__file__))
PY
